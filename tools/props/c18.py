# C18 — truncated or mistyped serialized input is never accepted silently
import vlib, json
import codecgen as G
LEVEL = 'proof'
CLEAN = lambda v: v[0] == 0 and v[1] == 0 and v[2] == 0

def classify(o):
    """(class, eof, fail) of one import outcome line"""
    if o.startswith('CRASH'): return ('driver-crash', 0, 0)
    v = o.split()
    if not v: return ('none', 0, 0)
    c = int(v[0])
    if c == 0: return ('ret', int(v[1]), int(v[2]))
    return ({1: 'abort', 2: 'segv', 3: 'unknown'}.get(c, 'signal%d' % c), 0, 0)

def run(ctx):
    thorough = ctx.tier == 'thorough'
    rng = ctx.rng
    ctx.rule = ('every byte offset of the export of every object type at small parameters (exhaustive), both transports; every importer fed the export of every other type; every '
                'single-byte corruption of section titles and type tags; each import in a forked child, outcome class (signal / returned with eof,fail bits) compared with the parser model; '
                'the property predicate (never "returned with a good stream" on a proper prefix or a mistyped input) evaluated on the implementation alone.  distinct = distinct (importer, transport, input) cases')
    ctx.assumptions = ['a NULL section (end of input) is dereferenced by the readers: SIGSEGV counts as "terminates the process"',
                       'where a decision depends on bytes a short C++-stream read left undetermined the model answers "unknown" and any not-clean outcome is accepted']
    ctx.prove()
    bdir = vlib.build_lib('optim')
    exe = vlib.build_harness('io_drv.cpp', bdir, 'spqlios-fma', 'optim')
    codes = [c for c in range(1, 13)]
    objs = {}
    el = []
    for code in codes:
        for rep in range(2 if not thorough else 5):
            for _ in range(20):
                f, c = G.gen(rng, code)
                if len(f) < 400: break
            objs[(code, rep)] = (f, c); el.append('cexp %d 1 %s' % (code, ' '.join(map(str, f))))
    eb = vlib.run_lines(exe, el, timeout=600)
    exports = {}
    for (key, (f, c)), b in zip(objs.items(), eb): exports[key] = (f, c, b.split())
    cases = []   # (line, kind, expect_clean)
    # (a) every proper prefix and the complete input
    for (code, rep), (f, c, b) in exports.items():
        for tr in (0, 1):
            cut = range(len(b) + 1) if (len(b) <= 700 or thorough) else sorted(set(range(0, len(b) + 1, 3)) | set(range(max(0, len(b) - 120), len(b) + 1)))
            for L in cut:
                cases.append(('cimp %d %d %s %d %s' % (code, tr, ' '.join(map(str, c)), L, ' '.join(b[:L])), 'prefix' if L < len(b) else 'complete', L == len(b)))
    # (b) object of type A fed to the importer of type B
    ctxs = {code: exports[(code, 0)][1] for code in codes}
    for A in codes:
        bA = exports[(A, 0)][2]
        for B in codes:
            if A == B: continue
            if bytes_prefix_compatible(A, B): continue
            for tr in (0, 1):
                cases.append(('cimp %d %d %s %d %s' % (B, tr, ' '.join(map(str, ctxs[B])), len(bA), ' '.join(bA)), 'mistyped', False))
    # (c) single-byte corruptions of titles and tags
    for (code, rep), (f, c, b) in exports.items():
        if rep: continue
        bb = [int(x) for x in b]
        pos = set()
        raw = bytes(bb)
        i = 0
        while True:
            j = raw.find(b'-----BEGIN ', i)
            if j < 0: break
            e = raw.find(b'-----\n', j + 11); pos |= set(range(j + 11, e)); i = e
            k2 = raw.find(b'-----END ', i); e2 = raw.find(b'-----\n', k2 + 9); pos |= set(range(k2 + 9, e2)); i = e2
        # binary tag positions: the 4 bytes following the text part (and nested tags for samples)
        t0 = i + 6 if i else 0
        if t0 + 4 <= len(bb): pos |= set(range(t0, t0 + 4))
        for p in sorted(pos):
            for delta in (1, 0x20, 0x80):
                nb = list(bb); nb[p] = (nb[p] ^ delta) & 0xFF
                if nb[p] in (10, 13): continue
                for tr in (0, 1):
                    cases.append(('cimp %d %d %s %d %s' % (code, tr, ' '.join(map(str, c)), len(nb), ' '.join(map(str, nb))), 'corrupt', False))
    lines = [c[0] for c in cases]
    impl = vlib.run_lines(exe, lines, timeout=3000)
    model = vlib.run_model(lines, 'fast', timeout=3000)
    ndis = 0; dist = {}
    for (line, kind, expect_clean), o, m in zip(cases, impl, model):
        ctx.count(line)
        ic = classify(o); mc = classify(m)
        dist[(kind, ic[0] if ic[0] != 'ret' else 'ret eof=%d fail=%d' % ic[1:])] = dist.get((kind, ic[0] if ic[0] != 'ret' else 'ret eof=%d fail=%d' % ic[1:]), 0) + 1
        clean = ic == ('ret', 0, 0)
        if kind != 'complete' and clean:
            ctx.report('accepted-silently-' + kind, '%s input accepted silently (returned normally with a good stream): %s...' % (kind, line[:70]), {'case': line[:8000], 'kind': kind, 'impl': o[:300]})
        if kind == 'complete' and not clean:
            ctx.report('complete-rejected', 'a complete valid input is not imported cleanly: %s -> %s' % (line[:70], o[:40]), {'case': line[:8000], 'impl': o[:300]})
        if ic[0].startswith('signal') or ic[0] == 'driver-crash':
            ctx.report('unexpected-signal', 'import died with an unexpected signal (%s): %s...' % (ic[0], line[:70]), {'case': line[:8000], 'impl': o[:100]})
        # correspondence with the parser model
        if mc[0] == 'unknown':
            ok = not clean
        else:
            ok = (ic == mc) and (ic[0] != 'ret' or o.split()[3:] == m.split()[3:] or ic[2] == 1)
        if not ok:
            ndis += 1
            ctx.soft('correspondence:import-%s' % kind, 'importer and parser model disagree on a %s input: impl %s, model %s (%s...)' % (kind, o[:40], m[:40], line[:60]), {'case': line[:8000], 'impl': o[:300], 'model': m[:300]})
    # "never accesses memory out of bounds while doing so": the prefix and mistyped imports again under AddressSanitizer (library and harness
    # instrumented); a NULL dereference stays the ordinary SIGSEGV (handle_segv=0), an ASan report ends the importing child with exit code 77
    import os
    aexe = vlib.build_harness('io_drv.cpp', vlib.build_lib('asan'), 'spqlios-fma', 'asan')
    aenv = dict(os.environ, ASAN_OPTIONS='detect_leaks=0:handle_segv=0:handle_abort=0:abort_on_error=0:exitcode=77:allocator_may_return_null=1')
    asub = [i for i, c in enumerate(cases) if c[1] in ('prefix', 'mistyped')]
    if not thorough: asub = asub[::2] if len(asub) < 9000 else asub[::4]
    aout = vlib.run_lines(aexe, [lines[i] for i in asub], timeout=3000, env=aenv)
    nb = 0
    for i, o in zip(asub, aout):
        ctx.count(('asan', lines[i]))
        if o.strip() == '877' or o.startswith('CRASH'):
            nb += 1
            if nb <= 3: ctx.report('out-of-bounds-while-rejecting', 'a %s input is rejected, but AddressSanitizer reports a memory error inside the importer (%s): %s...' % (cases[i][1], o[:40], lines[i][:70]),
                                   {'case': lines[i][:8000], 'kind': cases[i][1], 'impl': o[:100], 'asan': 1})
    ctx.cov['imports_under_asan'] = len(asub); ctx.cov['asan_reports'] = nb
    ctx.cov['correspondence_cases'] = len(cases); ctx.cov['disagreements'] = ndis
    ctx.cov['outcome_distribution'] = {'%s: %s' % k: v for k, v in sorted(dist.items())}
    ctx.cov['exhaustive'] = True
    for c in cases[:: max(1, len(cases) // 6)]: ctx.sample({'case': c[0][:120], 'kind': c[1]})

def bytes_prefix_compatible(A, B):
    # an export of A legitimately starts with a complete export of B (B's importer then returns cleanly, by design):
    # LweKey/KS key start with LweParams; TLweKey/TGswParams/TGswKey with TLweParams; TGswKey with TGswParams; BK with LweParams
    return (A, B) in {(3, 1), (10, 1), (11, 1), (6, 4), (7, 4), (9, 4), (9, 7)}

def replay(ctx, data):
    if data.get('asan'):
        import os, subprocess
        aexe = vlib.build_harness('io_drv.cpp', vlib.build_lib('asan'), 'spqlios-fma', 'asan')
        p = subprocess.run([aexe], input=data['case'] + '\n', capture_output=True, text=True, env=dict(os.environ, ASAN_OPTIONS='detect_leaks=0:handle_segv=0:handle_abort=0:abort_on_error=0:exitcode=77'))
        print('case:', data['case'][:200], '\nunder AddressSanitizer now:', p.stdout.strip()[:100], '\n', p.stderr[-2500:]); return 1 if p.stdout.strip() == '877' else 0
    exe = vlib.build_harness('io_drv.cpp', vlib.build_lib('optim'), 'spqlios-fma', 'optim')
    o = vlib.run_lines(exe, [data['case']])[0]
    print('case:', data['case'][:300], '\nimplementation now:', o[:300], '\nrecorded:', str(data.get('impl'))[:300]); return 0
