#!/bin/sh
# tools/seedrecheck.sh <name> <note> <ID...> — re-run checks against a kept seed and update its meta.json
name=$1; note=$2; shift 2
res=$(./tools/seedtest.sh /verif/seeded/$name/patch.diff "$@" 2>&1); echo "$res" | grep "^== "
python3 - "$name" "$note" "$res" "$@" <<'PY'
import sys, json
name, note, res = sys.argv[1:4]; ids = sys.argv[4:]
p = 'seeded/%s/meta.json' % name; m = json.load(open(p))
for i in ids:
    prev = m['checks_run'].get(i)
    now = 'VIOLATION reported (exit 1)' if ('== %s exit=1' % i) in res else 'MISSED (exit 0)'
    if prev and prev != now: m.setdefault('history', []).append('%s: was "%s"; %s; now "%s"' % (i, prev, note, now))
    m['checks_run'][i] = now
m['check_output'] = res[-1500:]
json.dump(m, open(p, 'w'), indent=1); print(m['checks_run'])
PY
