#!/bin/sh
# tools/seedkeep.sh <srcdir> <name> <ID...> — confirm a seeded change, run the listed checks against it, keep it under seeded/<name>/
src=$1; name=$2; shift 2
conf=$(./tools/seedconfirm.sh $src 2>&1); echo "$conf" | tail -6
echo "$conf" | grep -q '^CONFIRMED' || { echo "not kept"; exit 1; }
mkdir -p seeded/$name; cp $src/patch.diff $src/demo.cpp $src/run_demo.sh seeded/$name/ 2>/dev/null; cp $src/meta.json seeded/$name/agent_meta.json
res=$(./tools/seedtest.sh $src/patch.diff "$@" 2>&1); echo "$res"
python3 - "$name" "$conf" "$res" "$@" <<'PY'
import sys, json, os
name, conf, res = sys.argv[1:4]; ids = sys.argv[4:]
am = json.load(open('seeded/%s/agent_meta.json' % name))
det = {i: ('== %s exit=1' % i) in res for i in ids}
meta = {'property': am.get('property'), 'summary': am.get('summary'), 'needs_to_manifest': am.get('needs_to_manifest'),
        'files_changed': am.get('files_changed'),
        'confirmed_by': 'tools/seedconfirm.sh in a scratch worktree: ' + conf.strip().split('\n')[0],
        'checks_run': {i: ('VIOLATION reported (exit 1)' if det[i] else 'MISSED (exit 0)') for i in ids},
        'check_output': res[-1500:]}
json.dump(meta, open('seeded/%s/meta.json' % name, 'w'), indent=1)
print('kept seeded/%s:' % name, meta['checks_run'])
PY
