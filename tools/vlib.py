# tools/vlib.py — shared machinery of the checks: building /repo's working tree, running the
# implementation and model drivers, compiling the property theorems, verdicts and evidence.
import os, sys, json, time, hashlib, subprocess, shutil, fcntl, random, re, signal, tempfile

VERIF = os.path.dirname(os.path.dirname(os.path.abspath(__file__)))
REPO = os.environ.get('VERIF_REPO', '/repo')
CACHE = os.environ.get('VERIF_CACHE', '/var/tmp/tfhe-verif-cache')
COQ = os.path.join(VERIF, 'coq')
OUT = os.environ.get('VERIF_OUT', VERIF)   # where evidence/ and replays/ are written (redirected when testing seeded changes)
NPROC = os.cpu_count() or 4
BACKENDS = ['spqlios-fma', 'spqlios-avx', 'nayuki-portable', 'nayuki-avx', 'fftw']

ALLOWED_AXIOMS = {
    # standard-library axioms a theorem may depend on (each is reported in the evidence when used)
    'Coq.Logic.FunctionalExtensionality.functional_extensionality_dep',
    'FunctionalExtensionality.functional_extensionality_dep',
    'functional_extensionality_dep',
    'Coq.Logic.Classical_Prop.classic', 'Classical_Prop.classic', 'classic',
    'Coq.Logic.ProofIrrelevance.proof_irrelevance', 'proof_irrelevance',
    'Coq.Logic.JMeq.JMeq_eq', 'JMeq_eq', 'Eqdep.Eq_rect_eq.eq_rect_eq', 'eq_rect_eq',
}

VARIANT_FLAGS = {
    # name -> (cmake build type, extra cmake args)
    'optim': ('optim', []),
    'debug': ('debug', []),
    'asan': ('verifasan', [
        '-DCMAKE_CXX_FLAGS_VERIFASAN=-std=gnu++11 -g -O1 -march=native -fsanitize=address,bounds,null,alignment,object-size,pointer-overflow,return,vla-bound,bool,enum -fno-sanitize-recover=all -fno-omit-frame-pointer',
        '-DCMAKE_C_FLAGS_VERIFASAN=-g -O1 -march=native -fsanitize=address,bounds,null,alignment,object-size,pointer-overflow,vla-bound,bool,enum -fno-sanitize-recover=all -fno-omit-frame-pointer',
        '-DCMAKE_SHARED_LINKER_FLAGS=-fsanitize=address,undefined']),
    'vg': ('verifvg', [
        '-DCMAKE_CXX_FLAGS_VERIFVG=-std=gnu++11 -g -O2 -mavx2 -mfma -DNDEBUG',
        '-DCMAKE_C_FLAGS_VERIFVG=-g -O2 -mavx2 -mfma -DNDEBUG']),
    # optimised flags without the vector extensions: the scalar code paths compiled with NDEBUG (what an optimised build is on a target without AVX2)
    'scalar': ('verifscalar', [
        '-DCMAKE_CXX_FLAGS_VERIFSCALAR=-std=gnu++11 -g -O2 -DNDEBUG',
        '-DCMAKE_C_FLAGS_VERIFSCALAR=-g -O2 -DNDEBUG']),
    'tsan': ('veriftsan', [
        '-DCMAKE_CXX_FLAGS_VERIFTSAN=-std=gnu++11 -g -O1 -fsanitize=thread',
        '-DCMAKE_C_FLAGS_VERIFTSAN=-g -O1 -fsanitize=thread',
        '-DCMAKE_SHARED_LINKER_FLAGS=-fsanitize=thread']),
}
HARNESS_FLAGS = {
    'optim': ['-O1', '-g'],
    'debug': ['-O0', '-g'],
    # the library relies on wrap-around of signed 32-bit arithmetic and on 1<<31: those UBSan checks are not part of C16 and are left off
    'asan': ['-O1', '-g', '-fsanitize=address,bounds,null,alignment,object-size,pointer-overflow,return,vla-bound,bool,enum', '-fno-sanitize-recover=all', '-fno-omit-frame-pointer'],
    'vg': ['-O1', '-g'],
    'scalar': ['-O1', '-g'],
    'tsan': ['-O1', '-g', '-fsanitize=thread'],
}


def sh(cmd, timeout=None, cwd=None, env=None, input=None, check=False):
    p = subprocess.run(cmd, cwd=cwd, env=env, input=input, timeout=timeout,
                       stdout=subprocess.PIPE, stderr=subprocess.STDOUT, text=True)
    if check and p.returncode != 0:
        raise RuntimeError('command failed (%d): %s\n%s' % (p.returncode, ' '.join(cmd), p.stdout[-4000:]))
    return p.returncode, p.stdout


class GlobalLock:
    """one lock for every run on this machine, whatever its cache directory: the generated facts files live in the shared Coq tree"""
    def __init__(self, name): self.path = '/var/tmp/tfhe-verif-%s.lock' % name
    def __enter__(self):
        self.f = open(self.path, 'w'); fcntl.flock(self.f, fcntl.LOCK_EX); return self
    def __exit__(self, *a):
        fcntl.flock(self.f, fcntl.LOCK_UN); self.f.close()


class Lock:
    def __init__(self, name):
        os.makedirs(CACHE, exist_ok=True)
        self.path = os.path.join(CACHE, name + '.lock')
    def __enter__(self):
        self.f = open(self.path, 'w'); fcntl.flock(self.f, fcntl.LOCK_EX); return self
    def __exit__(self, *a):
        fcntl.flock(self.f, fcntl.LOCK_UN); self.f.close()


def repo_files():
    rc, out = sh(['git', '-C', REPO, 'ls-files', '-co', '--exclude-standard', '--', 'src', 'README.md'])
    files = [l for l in out.splitlines() if l and not l.startswith('src/test/googletest')]
    return sorted(set(files))


_fp = None
def repo_fingerprint():
    """content hash of /repo's current working tree (sources only)"""
    global _fp
    if _fp: return _fp
    h = hashlib.sha256()
    for f in repo_files():
        p = os.path.join(REPO, f)
        if not os.path.isfile(p): continue
        h.update(f.encode()); h.update(b'\0')
        with open(p, 'rb') as fh: h.update(fh.read())
        h.update(b'\0')
    _fp = h.hexdigest()[:16]
    return _fp


def file_hash(paths):
    h = hashlib.sha256()
    for p in paths:
        with open(p, 'rb') as fh: h.update(fh.read())
    return h.hexdigest()[:12]


def prune_cache(keep_fp):
    """remove build output belonging to other working-tree states"""
    if not os.path.isdir(CACHE): return
    for d in os.listdir(CACHE):
        if d.endswith('.lock'): continue
        if not d.startswith(keep_fp):
            shutil.rmtree(os.path.join(CACHE, d), ignore_errors=True)


def build_lib(variant='optim'):
    """configure and build libtfhe (all five back-ends) from /repo's working tree, out of tree.
    Output is keyed by the content hash of the sources, so an unchanged tree is not rebuilt."""
    fp = repo_fingerprint()
    bdir = os.path.join(CACHE, '%s-%s' % (fp, variant))
    with Lock('build'):
        prune_cache(fp)
        stamp = os.path.join(bdir, '.built')
        if os.path.exists(stamp) and not os.environ.get('VERIF_NO_CACHE'):
            return bdir
        shutil.rmtree(bdir, ignore_errors=True)
        os.makedirs(bdir)
        btype, extra = VARIANT_FLAGS[variant]
        cmd = ['cmake', '-S', os.path.join(REPO, 'src'), '-B', bdir, '-G', 'Ninja', '-Wno-dev',
               '-DCMAKE_BUILD_TYPE=' + btype, '-DENABLE_FFTW=on'] + extra
        rc, out = sh(cmd, timeout=300)
        if rc != 0: raise BuildError('cmake failed:\n' + out[-3000:])
        rc, out = sh(['ninja', '-C', bdir], timeout=1200)
        if rc != 0: raise BuildError('library build failed:\n' + out[-3000:])
        open(stamp, 'w').write(time.ctime())
    return bdir


class BuildError(Exception):
    pass


def build_harness(src, bdir, backend='spqlios-fma', variant='optim', extra=None, name=None):
    """compile a harness translation unit against the library just built"""
    srcp = os.path.join(VERIF, 'harness', src)
    deps = [srcp] + [os.path.join(VERIF, 'harness', f) for f in os.listdir(os.path.join(VERIF, 'harness'))
                     if f.endswith('.h') or f.endswith('.inc')]
    tag = file_hash(sorted(deps))
    exe = os.path.join(bdir, '%s-%s-%s' % (name or os.path.splitext(src)[0], backend, tag))
    with Lock('harness'):
        if os.path.exists(exe): return exe
        comp = 'gcc' if src.endswith('.c') else 'g++'
        std = ['-std=c99'] if src.endswith('.c') else ['-std=gnu++11']
        cmd = [comp] + std + HARNESS_FLAGS[variant] + ['-march=native', '-I', os.path.join(REPO, 'src', 'include'),
               '-I', os.path.join(REPO, 'src', 'libtfhe'), '-I', os.path.join(VERIF, 'harness'),
               srcp, '-o', exe + '.tmp', '-L', os.path.join(bdir, 'libtfhe'), '-ltfhe-' + backend,
               '-Wl,-rpath,' + os.path.join(bdir, 'libtfhe'), '-lpthread', '-ldl'] + (extra or [])
        if backend == 'fftw': cmd += ['-lfftw3']
        rc, out = sh(cmd, timeout=600)
        if rc != 0: raise BuildError('harness build failed:\n' + out[-3000:])
        os.rename(exe + '.tmp', exe)
    return exe


def ensure_model():
    """the extracted model drivers (built by setup; rebuilt here if missing or stale)"""
    drv = os.path.join(VERIF, 'ocaml', 'pure', 'driver')
    srcs = []
    for root, _, fs in os.walk(os.path.join(COQ, 'Model')):
        srcs += [os.path.join(root, f) for f in fs if f.endswith('.v')]
    for d in ('Base', 'Codec', 'Ring', 'Extract'):
        srcs += [os.path.join(COQ, d, f) for f in os.listdir(os.path.join(COQ, d)) if f.endswith('.v')]
    srcs += [os.path.join(VERIF, 'ocaml', f) for f in ('driver.ml', 'zio_pure.ml', 'zio_fast.ml', 'model_z.ml', 'build.sh')]
    with Lock('coq'):
        newest = max(os.path.getmtime(p) for p in srcs)
        if not os.path.exists(drv) or os.path.getmtime(drv) < newest or \
           not os.path.exists(os.path.join(VERIF, 'ocaml', 'fast', 'driver')):
            coq_make()
            rc, out = sh([os.path.join(VERIF, 'ocaml', 'build.sh')], timeout=900)
            if rc != 0: raise BuildError('model driver build failed:\n' + out[-3000:])


def coq_make(targets=None):
    if not os.path.exists(os.path.join(COQ, 'Makefile')):
        sh(['coq_makefile', '-f', '_CoqProject', '-o', 'Makefile'], cwd=COQ, check=True)
    cmd = ['make', '-k', '-j%d' % NPROC] + (targets or [])
    rc, out = sh(cmd, cwd=COQ, timeout=3000)
    return rc, out


def _big_stack():
    # the extracted model recurses structurally over long lists (non tail-recursive): give it the stack it needs
    import resource
    try: resource.setrlimit(resource.RLIMIT_STACK, (resource.RLIM_INFINITY, resource.RLIM_INFINITY))
    except Exception:
        try:
            soft, hard = resource.getrlimit(resource.RLIMIT_STACK); resource.setrlimit(resource.RLIMIT_STACK, (hard, hard))
        except Exception: pass

def run_lines(exe, cases, timeout=600, env=None, restart_on_crash=True, big_stack=False):
    """feed case lines to a driver; returns one output line per case.  A crash of the driver is
    reported as 'CRASH <signal>' for the case it died on and the driver is restarted after it."""
    outs = []
    i = 0
    n = len(cases)
    while i < n:
        data = '\n'.join(cases[i:]) + '\n'
        try:
            p = subprocess.run([exe] if isinstance(exe, str) else exe, input=data, stdout=subprocess.PIPE,
                               stderr=subprocess.PIPE, text=True, timeout=timeout, env=env, preexec_fn=_big_stack if big_stack else None)
        except subprocess.TimeoutExpired as e:
            # a driver that hangs (dead-lock, live-lock) is a dead driver: the case it was working on is reported as such
            so = e.stdout if isinstance(e.stdout, str) else (e.stdout or b'').decode(errors='replace')
            lines = so.split('\n')
            if lines and lines[-1] == '': lines.pop()
            got = lines[:n - i]; outs += got; i += len(got)
            if i < n: outs.append('CRASH timeout: no answer within %d s (hung)' % timeout); i += 1
            if not restart_on_crash: break
            continue
        lines = p.stdout.split('\n')
        if lines and lines[-1] == '': lines.pop()
        got = lines[:n - i]
        outs += got
        i += len(got)
        if i < n:
            if p.returncode == 0 and not restart_on_crash:
                break
            sig = -p.returncode if p.returncode < 0 else p.returncode
            outs.append('CRASH %s %s' % (sig, p.stderr.strip().split('\n')[-1][:200] if p.stderr.strip() else ''))
            i += 1
            if not restart_on_crash: break
    return outs


def run_model(cases, flavour='pure', timeout=900):
    ensure_model()
    exe = os.path.join(VERIF, 'ocaml', flavour, 'driver')
    return run_lines(exe, cases, timeout=timeout, restart_on_crash=False, big_stack=True)


FORBIDDEN = re.compile(r'\b(Admitted|admit|Axiom|Axioms|Parameter|Parameters|Conjecture|Admit Obligations|'
                       r'Unset Guard Checking|Unset Positivity Checking|Unset Universe Checking|bypass_check|'
                       r'type-in-type|impredicative-set)\b')


def scan_forbidden():
    """no Admitted/admit/Axiom/Parameter/... anywhere in the development (comments stripped)"""
    hits = []
    for root, _, fs in os.walk(COQ):
        for f in fs:
            if not f.endswith('.v'): continue
            p = os.path.join(root, f)
            txt = open(p).read()
            # strip comments (non-nested is enough for this code base; nested handled by loop)
            prev = None
            while prev != txt:
                prev = txt
                txt = re.sub(r'\(\*[^*(]*(?:\*(?!\))[^*(]*|\((?!\*)[^*(]*)*\*\)', ' ', txt)
            for m in FORBIDDEN.finditer(txt):
                hits.append('%s: %s' % (os.path.relpath(p, COQ), m.group(0)))
    for f in ('_CoqProject',):
        t = open(os.path.join(COQ, f)).read()
        if 'type-in-type' in t or 'impredicative-set' in t: hits.append(f + ': kernel flag')
    return hits


def coq_check(pid, extra_files=None, timeout=900):
    """(re)compile Properties_<pid>.v on top of an up-to-date development and read its
    Print Assumptions output.  Returns a dict: ok, obligations, discharged, theorems, axioms, log."""
    res = {'ok': False, 'obligations': 0, 'discharged': 0, 'theorems': [], 'axioms': {}, 'log': '', 'broken': []}
    pf = os.path.join(COQ, 'Properties', 'Properties_%s.v' % pid)
    src = open(pf).read()
    thms = re.findall(r'^\s*(?:Theorem|Example)\s+([A-Za-z0-9_\']+)', src, re.M)
    res['theorems'] = thms
    res['obligations'] = len(thms)
    hits = scan_forbidden()
    if hits:
        res['log'] = 'forbidden constructs: ' + '; '.join(hits[:10]); res['broken'] = ['forbidden:' + h for h in hits[:10]]
        return res
    with Lock('coq'):
        rc, out = coq_make()
        # dependencies of the property file must have compiled; the file itself is recompiled to read its output
        t0 = time.time()
        cmd = ['coqc', '-Q', '.', 'TV', os.path.relpath(pf, COQ)]
        try:
            rc2, out2 = sh(cmd, cwd=COQ, timeout=timeout)
        except subprocess.TimeoutExpired:
            res['log'] = 'coqc timed out'; res['broken'] = ['timeout']; return res
    res['log'] = out2[-6000:]
    res['coqc_s'] = round(time.time() - t0, 1)
    if rc2 != 0:
        # find which theorem broke: the first theorem after the error line, else the file
        m = re.search(r'line (\d+), characters', out2)
        broken = 'Properties_%s.v' % pid
        if m:
            ln = int(m.group(1))
            fm = re.search(r'File "\./([^"]+)"', out2)
            if fm and not fm.group(1).endswith('Properties_%s.v' % pid):
                broken = fm.group(1) + ':' + str(ln)
            else:
                upto = src.split('\n')[:ln]
                names = re.findall(r'^\s*(?:Theorem|Example)\s+([A-Za-z0-9_\']+)', '\n'.join(upto), re.M)
                if names: broken = names[-1]
        res['broken'] = [broken]
        return res
    # parse Print Assumptions blocks, in order
    blocks = re.split(r'(?m)^(?=Closed under the global context|Axioms:)', out2)
    blocks = [b for b in blocks if b.startswith('Closed') or b.startswith('Axioms:')]
    axioms = {}
    bad = []
    for b in blocks:
        if b.startswith('Axioms:'):
            for m in re.finditer(r'(?m)^([A-Za-z0-9_.\']+)\s*:', b[len('Axioms:'):]):
                name = m.group(1)
                axioms[name] = axioms.get(name, 0) + 1
                if name not in ALLOWED_AXIOMS and name.split('.')[-1] not in ALLOWED_AXIOMS:
                    bad.append(name)
    res['axioms'] = axioms
    res['assumption_blocks'] = len(blocks)
    if bad:
        res['broken'] = ['axiom:' + a for a in bad]
        return res
    res['discharged'] = len(thms)
    res['ok'] = True
    return res


class Ctx:
    """one check run of one property"""
    def __init__(self, pid, tier, seed):
        self.pid = pid; self.tier = tier; self.seed = seed
        self.rng = random.Random(seed * 1000003 + int(hashlib.md5(pid.encode()).hexdigest()[:6], 16))
        self.t0 = time.time()
        self.evaluations = 0
        self.distinct = set()
        self.samples = []
        self.violations = []      # (replay_path, note)
        self.known_hits = []
        self.cov = {}
        self.assumptions = []
        self.notes = []
        self.findings = load_findings()
        self.rule = ''
        self.trusted = []
        self.coq = None
        self.hypotheses = {}
        self.pending = []         # broken proof obligations / correspondences, resolved in finish()

    def soft(self, key, what, replay):
        """a proof obligation or a correspondence no longer checks (not by itself a failing input)"""
        if not any(p[0] == key for p in self.pending):
            self.pending.append((key, what, replay))

    # ---- bookkeeping
    def count(self, case, nontrivial=True):
        self.evaluations += 1
        if nontrivial:
            self.distinct.add(hashlib.md5(str(case).encode()).digest()[:8])
    def sample(self, s, limit=12):
        if len(self.samples) < limit: self.samples.append(s)

    # ---- verdicts
    def replay_path(self, tag=''):
        d = os.path.join(OUT, 'replays'); os.makedirs(d, exist_ok=True)
        return os.path.join(d, '%s-%d%s.json' % (self.pid, self.seed, ('-' + tag) if tag else ''))

    def report(self, key, what, replay, no_input=False):
        """a property failure at a specific input/call site.  Listed open findings are reported as
        KNOWN-FINDING and do not fail the check; anything else is a VIOLATION."""
        for f in self.findings:
            if f.get('property') == self.pid and f.get('status') == 'open' and f.get('key') == key:
                line = 'KNOWN-FINDING: property=%s %s' % (self.pid, f.get('what', what))
                if line not in self.known_hits:
                    self.known_hits.append(line); print(line, flush=True)
                return False
        tag = re.sub(r'[^A-Za-z0-9]+', '_', key)[:40]
        path = self.replay_path(tag)
        replay = dict(replay); replay.update({'property': self.pid, 'key': key, 'what': what, 'seed': self.seed, 'tier': self.tier})
        with open(path, 'w') as fh: json.dump(replay, fh, indent=1, default=str)
        if not any(v[2] == key for v in self.violations):
            print('VIOLATION property=%s replay=%s%s' % (self.pid, path, ' no-failing-input-found' if no_input else ''), flush=True)
            print('  ' + what[:500], flush=True)
        self.violations.append((path, what, key))
        return True

    def finish(self, level='proof', text_extra=None):
        if self.coq is not None and not self.coq['ok']:
            self.soft('proof:' + ','.join(self.coq['broken']),
                      'theorem(s) no longer check: %s' % ', '.join(self.coq['broken']),
                      {'broken': self.coq['broken'], 'coqc_log_tail': self.coq['log'][-3000:]})
        if self.pending and not self.violations:
            # nothing concrete was found by the directed search: still a violation, named as such
            for key, what, replay in self.pending[:5]:
                self.report(key, what, replay, no_input=True)
        elif self.pending:
            self.notes.append('also broken (a failing input was found, reported above): ' + '; '.join(p[0] for p in self.pending[:10]))
        cov = {
            'evaluations': max(self.evaluations, 1),
            'distinct_nontrivial': len(self.distinct),
            'rule': self.rule,
            'samples': self.samples or ['(none)'],
        }
        if self.coq is not None:
            cov.update({
                'obligations': self.coq['obligations'],
                'discharged': self.coq['discharged'],
                'checker_cmd': 'make -C coq && coqc -Q . TV Properties/Properties_%s.v  (Coq 8.16.1, full .vo build; Print Assumptions parsed)' % self.pid,
                'trusted_base': self.trusted + ['Coq 8.16.1 kernel incl. vm_compute (no native_compute)',
                    'axioms reported by Print Assumptions: ' + (', '.join(sorted(self.coq['axioms'])) if self.coq['axioms'] else 'none (closed under the global context)'),
                    'extraction: ExtrOcamlBasic (+ ExtrOcamlZBigInt for the fast driver), ocaml/driver.ml, zio_*.ml',
                    'correspondence harness harness/*.cpp, tools/*.py; g++ 12.2, cmake, ninja'],
                'theorems': self.coq['theorems'],
                'axioms': self.coq['axioms'],
                'proof_broken': self.coq['broken'],
            })
        cov.update(self.cov)
        if self.hypotheses: cov['measured_hypotheses'] = self.hypotheses
        ev = {
            'property_id': self.pid, 'tier': self.tier, 'seed': self.seed, 'level': level,
            'coverage': cov, 'assumptions': self.assumptions, 'wall_s': round(time.time() - self.t0, 2),
            'violations': len(self.violations),
            'known_findings_reported': self.known_hits,
            'repo_fingerprint': repo_fingerprint(),
            'notes': self.notes,
        }
        os.makedirs(os.path.join(OUT, 'evidence'), exist_ok=True)
        with open(os.path.join(OUT, 'evidence', self.pid + '.json'), 'w') as fh:
            json.dump(ev, fh, indent=1, default=str)
        if self.violations:
            print('%s: %d violation(s); evidence/%s.json' % (self.pid, len(self.violations), self.pid))
            return 1
        print('%s: held on everything explored (%d evaluations, %d distinct, %s/%s obligations) in %.1fs' % (
            self.pid, self.evaluations, len(self.distinct), cov.get('discharged', '-'), cov.get('obligations', '-'), time.time() - self.t0))
        return 0

    # ---- shared steps
    def prove(self, timeout=900):
        """step 1: the property's theorems must check"""
        self.coq = coq_check(self.pid, timeout=timeout)
        return self.coq['ok']

    def proof_failure(self, found_input=None):
        """kept for callers: broken proofs are resolved in finish()"""
        return

    def correspond(self, cases, impl_out, model_out, opname='correspondence'):
        """compare implementation and model line by line; returns the list of disagreeing indices"""
        bad = []
        for i, c in enumerate(cases):
            io = impl_out[i] if i < len(impl_out) else 'MISSING'
            mo = model_out[i] if i < len(model_out) else 'MISSING'
            if io.strip() != mo.strip():
                bad.append(i)
        return bad


def guard_pass(ctx, exe, lines, ref, what, extra):
    """the driver lines again with every array the process allocates (operands, results, the library's temporaries) ending flush with an inaccessible
       page (harness/guard_new.h): the call must neither die nor answer otherwise than on the ordinary heap.  ref: the outputs of the ordinary run"""
    outs = run_lines(exe, ['guard 1'] + list(lines), timeout=1800)[1:]
    n = 0
    for l, o, r in zip(lines, outs, ref):
        ctx.count(('guard', what, l[:4000]))
        if r.startswith('CRASH'): continue
        if o.startswith('CRASH') or o.strip() != r.strip():
            n += 1
            if n <= 2:
                ctx.report('out-of-bounds-at-page-end', '%s: %s when every array ends at an inaccessible page (%s): %s...' % (
                    what, 'the call dies (it reads or writes past the end of an array)' if o.startswith('CRASH') else 'the result differs from the one computed on the ordinary heap', o[:60], l[:80]),
                    dict(extra, case=l[:60000], guard=1, impl=o[:300], ordinary=r[:300]))
    ctx.cov['guard_page_cases_' + what.replace(' ', '_')] = len(lines)
    return n

def stack_pass(ctx, exe, lines, ref, what, extra, kib=32):
    """the driver lines again with the library calls made on a thread whose stack has `kib` KiB: the answers must be those of the main thread"""
    outs = run_lines(exe, ['stack %d' % kib] + list(lines), timeout=1800)[1:]
    n = 0
    for l, o, r in zip(lines, outs, ref):
        ctx.count(('stack', what, l[:4000]))
        if r.startswith('CRASH'): continue
        if o.startswith('CRASH') or o.strip() != r.strip():
            n += 1
            if n <= 2:
                ctx.report('small-stack-thread', '%s: called from a thread with a %d KiB stack %s (%s): %s...' % (
                    what, kib, 'the call dies (its stack frame does not fit: scratch moved onto the stack, deep recursion)' if o.startswith('CRASH') else 'the result differs from the one computed on the main thread', o[:60], l[:80]),
                    dict(extra, case=l[:60000], stack_kib=kib, impl=o[:300], ordinary=r[:300]))
    ctx.cov['small_stack_cases_' + what.replace(' ', '_')] = len(lines)
    return n

def guard_replay(exe, data):
    pre = 'stack %d' % data['stack_kib'] if data.get('stack_kib') else 'guard 1'
    o0 = run_lines(exe, [data['case']])[0]; o1 = run_lines(exe, [pre, data['case']])[1]
    print('case:', data['case'][:200], '\nordinary run:', o0[:120], '\nafter "%s":' % pre, o1[:120])
    return 1 if o0.strip() != o1.strip() else 0

def load_findings():
    p = os.path.join(VERIF, 'known_findings.json')
    if not os.path.exists(p): return []
    try:
        return json.load(open(p)).get('findings', [])
    except Exception:
        return []


def w32(z):
    return ((z + 2**31) % 2**32) - 2**31


# ---- allocation-failure injection (harness/mem_drv.cpp, op allocfail): shared by C09, C10, C11, C16 ----
ALLOCFAIL_FN = {0: 'torusPolynomialMultKaratsuba', 1: 'torusPolynomialAddMulRKaratsuba', 2: 'torusPolynomialSubMulRKaratsuba', 3: 'torusPolynomialMultFFT',
                4: 'torusPolynomialAddMulRFFT', 5: 'torusPolynomialSubMulRFFT', 6: 'tGswExternMulToTLwe', 7: 'tGswFFTExternMulToTLwe', 8: 'tGswExternProduct',
                9: 'tLweSymDecryptT'}

def allocfail_block(ctx, cases, backends=('spqlios-fma',)):
    """cases: (fn, N, k, l, Bgbit).  Every allocation request inside the call fails in turn; a call that then returns normally with a
       result different from the undisturbed one is reported (an exception or a dead process is a reported failure, not a silent one)."""
    tot = {'calls': 0, 'fault_points': 0, 'reported': 0, 'died': 0, 'unaffected': 0}
    for be in backends:
        exe = build_harness('mem_drv.cpp', build_lib('optim'), be, 'optim', extra=['-DVERIF_LEDGER'], name='mem_ledger')
        lines = ['allocfail %d %d %d %d %d %d' % (fn, N, k, l, B, ctx.seed * 13 + i) for i, (fn, N, k, l, B) in enumerate(cases)]
        outs = run_lines(exe, lines, timeout=1800)
        for (fn, N, k, l, B), line, o in zip(cases, lines, outs):
            t = o.split()
            ctx.count(('allocfail', be, fn, N, k, l, B))
            if not t or t[0] != 'ok' or len(t) < 7:
                if t[:2] == ['ok', '-1']: continue
                ctx.report('allocfail-crash', '%s (%s, N=%d): the fault-injection run died outside a fault point: %s' % (ALLOCFAIL_FN[fn], be, N, o[:120]), {'tool': 'allocfail', 'backend': be, 'lines': [line]}); continue
            total, right, rep, died, wrong, first = [int(x) for x in t[1:7]]
            tot['calls'] += 1; tot['fault_points'] += min(total, 64); tot['reported'] += rep; tot['died'] += died; tot['unaffected'] += right
            if wrong:
                what = ('two undisturbed calls on the same inputs differ' if first == -1 else
                        'with allocation request #%d of %d failing, the call returns normally with a wrong result (it neither reports the failure nor computes the right value)' % (first, total))
                ctx.report('silent-wrong-under-allocation-failure', '%s, %s back-end, N=%d k=%d (l,Bgbit)=(%d,%d): %s; %d of %d fault points silent' % (ALLOCFAIL_FN[fn], be, N, k, l, B, what, wrong, min(total, 64)),
                           {'tool': 'allocfail', 'backend': be, 'lines': [line], 'observed': o})
    ctx.cov['allocation_fault_injection'] = tot

def allocfail_replay(data):
    exe = build_harness('mem_drv.cpp', build_lib('optim'), data.get('backend', 'spqlios-fma'), 'optim', extra=['-DVERIF_LEDGER'], name='mem_ledger')
    for l, o in zip(data['lines'], run_lines(exe, data['lines'], timeout=1800)):
        print(l, '->', o, ' (allocations, unaffected, reported, died, silently wrong, first silent fault point); recorded:', data.get('observed'))
    return 0
