#!/bin/sh
# tools/seedtest.sh <patch.diff> <ID...> — run the check(s) against a seeded change.
# Default: a scratch worktree of /repo with the patch applied (VERIF_REPO), its own build cache and output directory, so that
# nothing in /repo, /verif/evidence or /verif/replays is disturbed and several seeds can be tried while other work goes on.
# With INPLACE=1: git -C /repo apply, run, git -C /repo checkout -- . (the procedure of the brief; same result, exclusive use of /repo).
patch=$1; shift; tier=${TIER:-quick}
if [ -n "$INPLACE" ]; then
  git -C /repo apply "$patch" || { echo "patch does not apply"; exit 2; }
  trap 'git -C /repo checkout -- . ' EXIT
  export VERIF_OUT=/tmp/seedout-$$
else
  w=/tmp/seedrepo-$$
  git -C /repo worktree add --detach $w HEAD >/dev/null 2>&1 || exit 2
  git -C $w apply "$patch" || { echo "patch does not apply"; git -C /repo worktree remove --force $w; exit 2; }
  export VERIF_REPO=$w VERIF_CACHE=/var/tmp/tfhe-verif-cache-seed-$$ VERIF_OUT=/tmp/seedout-$$
  trap 'git -C /repo worktree remove --force '$w' >/dev/null 2>&1; rm -rf '$w' /var/tmp/tfhe-verif-cache-seed-'$$ EXIT
fi
mkdir -p $VERIF_OUT
for id in "$@"; do
  ./tools/check $id --tier $tier > $VERIF_OUT/$id.log 2>&1; rc=$?
  echo "== $id exit=$rc"; grep -c "^VIOLATION" $VERIF_OUT/$id.log; grep -A1 "^VIOLATION" $VERIF_OUT/$id.log | cut -c1-400 | head -8; tail -1 $VERIF_OUT/$id.log
done
# facts files regenerated from the changed tree must not stay behind
# (under the same machine-wide lock the checks hold while they write the facts and re-check the proofs: a restore in the middle of another
#  run's proof step would make that run check the baseline facts instead of its own)
python3 - <<'PY'
import sys, shutil; sys.path.insert(0, 'tools')
import vlib
with vlib.GlobalLock('facts'):
    with vlib.Lock('coq'):
        for f in ('ParamsFacts', 'AbiFacts'): shutil.copyfile('coq/gen/%s.baseline' % f, 'coq/gen/%s.v' % f)
PY
rm -rf $VERIF_OUT
