#!/bin/sh
# setup_cmd: build the whole Coq development (full .vo), scan for forbidden constructs, extract the
# model and build the OCaml drivers.  Offline, files on disk only; does not touch /repo.
set -e
cd "$(dirname "$0")/.."
cd coq
# generated facts files are untracked; start from the committed baseline copies (every run of C19/C20 regenerates them)
for f in ParamsFacts AbiFacts; do [ -f gen/$f.v ] || cp gen/$f.baseline gen/$f.v; done
coq_makefile -f _CoqProject -o Makefile >/dev/null
timeout 3000 make -j16 > ../.setup-coq.log 2>&1 || { tail -40 ../.setup-coq.log; exit 1; }
cd ..
python3 - <<'PY'
import sys; sys.path.insert(0,'tools')
import vlib
h = vlib.scan_forbidden()
if h:
    print('forbidden constructs:', h); sys.exit(1)
print('no Admitted/admit/Axiom/Parameter/... in coq/')
PY
./ocaml/build.sh
echo setup done
