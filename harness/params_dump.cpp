// harness/params_dump.cpp — C19 facts: calls the real selector for every lambda in a forked child and
// dumps every field of the returned set (reals as exact dyadic rationals num/2^k).
#include <cstdio>
#include <cstdlib>
#include <cmath>
#include <climits>
#include <unistd.h>
#include <sys/wait.h>
#include <vector>
#include <thread>
#include <cstring>
#include "tfhe.h"
typedef long long ll;
static void dy(double d) {
    if (d == 0) { printf(" 0 0"); return; }
    int e; double m = frexp(d, &e); ll mi = (ll) ldexp(m, 53); ll ee = e - 53;
    while ((mi & 1) == 0 && ee < 0) { mi >>= 1; ee++; }
    if (ee >= 0) printf(" %lld 0", mi << ee); else printf(" %lld %lld", mi, -ee);
}
static void dump_set(ll lam) {
    TFheGateBootstrappingParameterSet *p = new_default_gate_bootstrapping_parameters((int32_t) lam);
    const LweParams *lp = p->in_out_params; const TGswParams *gp = p->tgsw_params; const TLweParams *tp = gp->tlwe_params;
    printf("%lld OK %d", lam, lp->n); dy(lp->alpha_min); dy(lp->alpha_max);
    printf(" %d %d", tp->N, tp->k); dy(tp->alpha_min); dy(tp->alpha_max);
    printf(" %d %d %d %d %u %d %u", gp->l, gp->Bgbit, gp->Bg, gp->halfBg, gp->maskMod, gp->kpl, gp->offset);
    printf(" %d %d %d", p->ks_t, p->ks_basebit, tp->extracted_lweparams.n);
    dy(tp->extracted_lweparams.alpha_min);
    for (int i = 0; i < gp->l; i++) printf(" %d", gp->h[i]);
    printf("\n"); fflush(stdout);
}
// histories: several requests in ONE process (a selector whose answer depends on earlier requests is wrong)
static void history(int id, const std::vector<ll> &seq) {
    fflush(stdout);
    pid_t pid = fork();
    if (pid == 0) {
        if (!freopen("/dev/null", "w", stderr)) {}
        for (size_t i = 0; i < seq.size(); i++) { printf("H %d %zu ", id, i); dump_set(seq[i]); }
        _exit(0);
    }
    int st = 0; waitpid(pid, &st, 0);
    if (WIFSIGNALED(st) || WEXITSTATUS(st) != 0) printf("H %d -1 0 ABORT 0\n", id);
}
// a set requested by a helper thread that has exited before the set is read (thread pools, start-up threads): "T id pos lam OK ..."
// plus "X lam <alpha_max of the extracted parameters>"
static void threaded(int id, const std::vector<ll> &seq) {
    fflush(stdout);
    pid_t pid = fork();
    if (pid == 0) {
        if (!freopen("/dev/null", "w", stderr)) {}
        for (size_t i = 0; i < seq.size(); i++) {
            TFheGateBootstrappingParameterSet *p = 0; ll lam = seq[i];
            std::thread t([&]() { p = new_default_gate_bootstrapping_parameters((int32_t) lam); }); t.join();
            for (int r = 0; r < 64; r++) { void *q = malloc(16 + 8 * r); memset(q, 0x5A, 16 + 8 * r); free(q); }   // recycle what the thread's exit may have freed
            const LweParams *lp = p->in_out_params; const TGswParams *gp = p->tgsw_params; const TLweParams *tp = gp->tlwe_params;
            printf("T %d %zu %lld OK %d", id, i, lam, lp->n); dy(lp->alpha_min); dy(lp->alpha_max);
            printf(" %d %d", tp->N, tp->k); dy(tp->alpha_min); dy(tp->alpha_max);
            printf(" %d %d %d %d %u %d %u", gp->l, gp->Bgbit, gp->Bg, gp->halfBg, gp->maskMod, gp->kpl, gp->offset);
            printf(" %d %d %d", p->ks_t, p->ks_basebit, tp->extracted_lweparams.n);
            dy(tp->extracted_lweparams.alpha_min);
            for (int j = 0; j < gp->l && j < 64; j++) printf(" %d", gp->h[j]);
            printf("\n");
            printf("X %lld", lam); dy(tp->extracted_lweparams.alpha_max); printf("\n"); fflush(stdout);
        }
        _exit(0);
    }
    int st = 0; waitpid(pid, &st, 0);
    if (WIFSIGNALED(st) || WEXITSTATUS(st) != 0) printf("T %d -1 0 ABORT 0\n", id);
}
int main() {
    std::vector<ll> lams; for (ll l = -5; l <= 300; l++) lams.push_back(l);
    lams.push_back(INT_MIN); lams.push_back(INT_MAX); lams.push_back(INT_MIN + 1); lams.push_back(1000000);
    for (ll lam : lams) {
        fflush(stdout);
        pid_t pid = fork();
        if (pid == 0) {
            if (!freopen("/dev/null", "w", stderr)) {}
            // the call sits under a catch-all handler, as in an application with a top-level try block or a task wrapper: a rejection that is an
            // exception instead of abort() is swallowed there (exit status 77)
            try { dump_set(lam); } catch (...) { _exit(77); }
            _exit(0);
        }
        int st = 0; waitpid(pid, &st, 0);
        if (WIFSIGNALED(st)) printf("%lld ABORT %d\n", lam, WTERMSIG(st));
        else if (WEXITSTATUS(st) != 0) printf("%lld EXIT %d\n", lam, WEXITSTATUS(st));
    }
    // the same rejected requests by a caller that does not use the returned pointer (a bare call): still an abort - the declaration in the public header must
    // not allow the caller's compiler to drop the call.  "B lam ABORT 6" expected
    for (ll lam : { (ll) 0, (ll) -1, (ll) -5, (ll) 129, (ll) 200, (ll) 300, (ll) INT_MIN, (ll) INT_MAX }) {
        fflush(stdout);
        pid_t pid = fork();
        if (pid == 0) { if (!freopen("/dev/null", "w", stderr)) {} new_default_gate_bootstrapping_parameters((int32_t) lam); _exit(0); }
        int st = 0; waitpid(pid, &st, 0);
        if (WIFSIGNALED(st)) printf("B %lld ABORT %d\n", lam, WTERMSIG(st)); else printf("B %lld EXIT %d\n", lam, WEXITSTATUS(st));
    }
    std::vector<ll> up, down, mix;
    for (ll l = 1; l <= 128; l++) { up.push_back(l); down.push_back(129 - l); }
    ll m[] = {80, 128, 80, 81, 1, 128, 100, 50, 81, 80};
    for (ll x : m) mix.push_back(x);
    history(0, up); history(1, down); history(2, mix);
    threaded(0, mix);
    return 0;
}
