// harness/mem_drv.cpp — memory behaviour (C16).  Built three ways: with ASan+UBSan against the sanitizer build of the library,
// plainly against the memcheck-friendly build (run under valgrind), and plainly against the optim build with the allocator
// interposed (allocation ledger).
//   life <lambda> n k l B t bb seed transport   full lifecycle: parameters, key generation, encryption of bits, all 14 gates (aliased too),
//        decryption, export + import of parameter set / cloud key / secret key / ciphertext, gates under the re-imported key, deletion of
//        everything.  Prints "ok <wrong decryptions>".
//   small <n>      LWE linear operations at dimension n (the inline-assembly subtraction and its tails), key switch n -> 3
//   ledger <type> p1 p2 p3 p4 -> sizeof(struct) ... then the sorted multiset of block sizes requested by new_<type>, then live blocks after delete
//   threads <count> <backend-independent>  thread create / FFT product + gate-free evaluation / exit cycles: live heap bytes before and after
#include <cstdio>
#include <cstdlib>
#include <cstring>
#include <cmath>
#include <string>
#include <vector>
#include <sstream>
#include <iostream>
#include <algorithm>
#include <thread>
#include <malloc.h>
#include <cerrno>
#include <new>
#include <unistd.h>
#include <sys/wait.h>
#include "tfhe.h"
#include "tfhe_io.h"
#include "lwe-functions.h"
#include "tlwe_functions.h"
#include "tgsw_functions.h"
#include "polynomials_arithmetic.h"
#include "lagrangehalfc_arithmetic.h"
#include "tfhe_garbage_collector.h"
typedef long long ll;
typedef std::vector<ll> V;

#ifdef VERIF_LEDGER
// ---- allocator interposition: every malloc/calloc/realloc/memalign/free of the process goes through here ----
extern "C" void *__libc_malloc(size_t); extern "C" void __libc_free(void *); extern "C" void *__libc_calloc(size_t, size_t);
extern "C" void *__libc_realloc(void *, size_t); extern "C" void *__libc_memalign(size_t, size_t);
static const size_t TAB = 1 << 22;
static void *tab_p[TAB]; static size_t tab_n[TAB]; static volatile bool tracking = false;
static size_t live_blocks = 0, live_bytes = 0;
// fault injection: while af_on, the af_fail_at-th allocation request of the process fails (returns NULL, errno ENOMEM)
static volatile bool af_on = false; static volatile long af_count = 0, af_fail_at = 0;
static inline bool af_fail() { if (!af_on) return false; af_count++; if (af_count == af_fail_at) { errno = ENOMEM; return true; } return false; }
static void rec(void *p, size_t n) { if (!p || !tracking) return; size_t h = ((size_t) p >> 4) & (TAB - 1); while (tab_p[h] && tab_p[h] != (void *) 1) h = (h + 1) & (TAB - 1); tab_p[h] = p; tab_n[h] = n; live_blocks++; live_bytes += n; }
static void unrec(void *p) { if (!p) return; size_t h = ((size_t) p >> 4) & (TAB - 1); size_t probes = 0;
    while (tab_p[h] && probes < TAB) { if (tab_p[h] == p) { tab_p[h] = (void *) 1; live_blocks--; live_bytes -= tab_n[h]; return; } h = (h + 1) & (TAB - 1); probes++; } }
extern "C" void *malloc(size_t n) { if (af_fail()) return NULL; void *p = __libc_malloc(n); rec(p, n); return p; }
extern "C" void *calloc(size_t a, size_t b) { if (af_fail()) return NULL; void *p = __libc_calloc(a, b); rec(p, a * b); return p; }
extern "C" void *realloc(void *q, size_t n) { if (tracking) unrec(q); void *p = __libc_realloc(q, n); rec(p, n); return p; }
extern "C" void *memalign(size_t a, size_t n) { if (af_fail()) return NULL; void *p = __libc_memalign(a, n); rec(p, n); return p; }
extern "C" void *aligned_alloc(size_t a, size_t n) { if (af_fail()) return NULL; void *p = __libc_memalign(a, n); rec(p, n); return p; }
extern "C" int posix_memalign(void **out, size_t a, size_t n) { if (af_fail()) return 12; void *p = __libc_memalign(a, n); if (!p) return 12; rec(p, n); *out = p; return 0; }
extern "C" void free(void *p) { if (tracking) unrec(p); __libc_free(p); }
static void live_sizes(V &r) { std::vector<ll> v; for (size_t i = 0; i < TAB; i++) if (tab_p[i] && tab_p[i] != (void *) 1) v.push_back((ll) tab_n[i]); std::sort(v.begin(), v.end()); for (ll x : v) r.push_back(x); }
static void reset_tab() { memset(tab_p, 0, sizeof tab_p); live_blocks = 0; live_bytes = 0; }
#endif

static std::string slurp(FILE *F) { fflush(F); long n = ftell(F); rewind(F); std::string s(n, 0); if (n && fread(&s[0], 1, n, F) != (size_t) n) abort(); return s; }
typedef void (*G2)(LweSample *, const LweSample *, const LweSample *, const TFheGateBootstrappingCloudKeySet *);
static G2 gate2[10] = { bootsNAND, bootsOR, bootsAND, bootsXOR, bootsXNOR, bootsNOR, bootsANDNY, bootsANDYN, bootsORNY, bootsORYN };
static int tab2(int g, int a, int b) { switch (g) { case 0: return !(a && b); case 1: return a || b; case 2: return a && b; case 3: return a ^ b; case 4: return !(a ^ b);
    case 5: return !(a || b); case 6: return !a && b; case 7: return a && !b; case 8: return !a || b; default: return a || !b; } }

static TFheGateBootstrappingParameterSet *mk_params(const V &a) {
    if (a[0] > 0) return new_default_gate_bootstrapping_parameters((int) a[0]);
    LweParams *lp = new_LweParams((int) a[1], pow(2., -25), 0.012467);       // small noise: the run is about memory, with every n
    TLweParams *tp = new_TLweParams(1024, (int) a[2], pow(2., -30), 0.012467);
    TGswParams *gp = new_TGswParams((int) a[3], (int) a[4], tp);
    return new TFheGateBootstrappingParameterSet((int) a[5], (int) a[6], lp, gp);
}
static void op_life(const V &a, V &r) {
    uint32_t seed = (uint32_t) a[7]; int tr = a[8]; tfhe_random_generator_setSeed(&seed, 1);
    TFheGateBootstrappingParameterSet *P = mk_params(a);
    TFheGateBootstrappingSecretKeySet *sk = new_random_gate_bootstrapping_secret_keyset(P);
    const TFheGateBootstrappingCloudKeySet *ck = &sk->cloud;
    LweSample *c = new_gate_bootstrapping_ciphertext_array(6, P); LweSample *one = new_gate_bootstrapping_ciphertext(P);
    int wrong = 0;
    for (int g = 0; g < 10; g++) for (int ab = 0; ab < 4; ab += (g % 3 == 0 ? 1 : 3)) {
        int x = ab & 1, y = ab >> 1; bootsSymEncrypt(&c[0], x, sk); bootsSymEncrypt(&c[1], y, sk);
        gate2[g](&c[2], &c[0], &c[1], ck); if (bootsSymDecrypt(&c[2], sk) != tab2(g, x, y)) wrong++;
        gate2[g](&c[0], &c[0], &c[1], ck); if (bootsSymDecrypt(&c[0], sk) != tab2(g, x, y)) wrong++;      // result aliases an input
    }
    bootsSymEncrypt(&c[0], 1, sk); bootsSymEncrypt(&c[1], 0, sk); bootsSymEncrypt(&c[2], 1, sk);
    bootsMUX(&c[3], &c[0], &c[1], &c[2], ck); if (bootsSymDecrypt(&c[3], sk) != 0) wrong++;
    bootsNOT(&c[4], &c[0], ck); if (bootsSymDecrypt(&c[4], sk) != 0) wrong++;
    bootsCOPY(&c[5], &c[1], ck); if (bootsSymDecrypt(&c[5], sk) != 0) wrong++;
    bootsCONSTANT(one, 1, ck); if (bootsSymDecrypt(one, sk) != 1) wrong++;
    // gates on constants (noiseless trivial inputs: every mask coefficient is zero, through blind rotation, extraction and key switch), into a
    // fresh result object and into one that was used before; the results are decrypted and exported (every word of them is read)
    { LweSample *k0 = new_gate_bootstrapping_ciphertext(P), *k1 = new_gate_bootstrapping_ciphertext(P), *fresh = new_gate_bootstrapping_ciphertext(P);
      bootsCONSTANT(k0, 0, ck); bootsCONSTANT(k1, 1, ck);
      bootsNAND(fresh, k0, k1, ck); if (bootsSymDecrypt(fresh, sk) != 1) wrong++;
      bootsXOR(&c[3], k1, k1, ck); if (bootsSymDecrypt(&c[3], sk) != 0) wrong++;
      bootsMUX(&c[4], k1, k0, k1, ck); if (bootsSymDecrypt(&c[4], sk) != 0) wrong++;
      bootsNOT(&c[5], k0, ck); bootsAND(&c[5], &c[5], k1, ck); if (bootsSymDecrypt(&c[5], sk) != 1) wrong++;
      { FILE *F = tmpfile(); export_gate_bootstrapping_ciphertext_toFile(F, fresh, P); export_gate_bootstrapping_ciphertext_toFile(F, &c[4], P); fclose(F); }
      delete_gate_bootstrapping_ciphertext(fresh); delete_gate_bootstrapping_ciphertext(k1); delete_gate_bootstrapping_ciphertext(k0); }
    // special values of the rounded input: body that rounds to barb = 0, mask coefficients that round to 0 (skipped CMux steps),
    // barb = N exactly (the output only needs to be computed from initialised memory; its bit is not specified at the boundary)
    { const int n = P->in_out_params->n;
      for (int q = 0; q < 2; q++) { for (int i = 0; i < n; i++) c[q].a[i] = (i % 3 == 0) ? 0 : (int32_t) (i * 2654435761u); c[q].b = 0; c[q].current_variance = 0; }
      c[0].b = 1 << 29;                       // NAND: 1/8 - 1/8 - 0 = 0 -> barb = 0
      bootsNAND(&c[2], &c[0], &c[1], ck); volatile int sink = bootsSymDecrypt(&c[2], sk); (void) sink;
      c[0].b = (int32_t) 0xA0000000u;          // 1/8 - (-3/8) = 1/2 -> barb = N
      bootsNAND(&c[2], &c[0], &c[1], ck); sink = bootsSymDecrypt(&c[2], sk);
      for (int i = 0; i < n; i++) { c[0].a[i] = 0; c[1].a[i] = 0; } c[0].b = 1 << 29; c[1].b = 0;
      bootsAND(&c[2], &c[0], &c[1], ck); sink = bootsSymDecrypt(&c[2], sk); }
    // the coefficient-domain twins of the bootstrapping (not reached by the gates): small n only, they cost n external products each
    if (P->in_out_params->n <= 40) {
        const LweParams *ex = &P->tgsw_params->tlwe_params->extracted_lweparams;
        bootsSymEncrypt(&c[0], 1, sk);
        tfhe_bootstrap(&c[2], ck->bk, 1 << 29, &c[0]); if (bootsSymDecrypt(&c[2], sk) != 1) wrong++;
        LweSample *u = new_LweSample(ex); tfhe_bootstrap_woKS(u, ck->bk, 1 << 29, &c[0]); lweKeySwitch(&c[2], ck->bk->ks, u); if (bootsSymDecrypt(&c[2], sk) != 1) wrong++;
        tfhe_bootstrap_woKS_FFT(u, ck->bkFFT, 1 << 29, &c[0]); lweKeySwitch(&c[2], ck->bkFFT->ks, u); if (bootsSymDecrypt(&c[2], sk) != 1) wrong++;
        delete_LweSample(u);
    }
    // serialisation round trips on both transports
    std::string pb, cb, sb, tb;
    if (tr == 1) { std::ostringstream o1, o2, o3, o4; export_tfheGateBootstrappingParameterSet_toStream(o1, P); export_tfheGateBootstrappingCloudKeySet_toStream(o2, ck);
        export_tfheGateBootstrappingSecretKeySet_toStream(o3, sk); export_gate_bootstrapping_ciphertext_toStream(o4, &c[3], P); pb = o1.str(); cb = o2.str(); sb = o3.str(); tb = o4.str(); }
    else { FILE *F = tmpfile(); export_tfheGateBootstrappingParameterSet_toFile(F, P); pb = slurp(F); fclose(F); F = tmpfile(); export_tfheGateBootstrappingCloudKeySet_toFile(F, ck); cb = slurp(F); fclose(F);
        F = tmpfile(); export_tfheGateBootstrappingSecretKeySet_toFile(F, sk); sb = slurp(F); fclose(F); F = tmpfile(); export_gate_bootstrapping_ciphertext_toFile(F, &c[3], P); tb = slurp(F); fclose(F); }
    TFheGateBootstrappingParameterSet *P2; TFheGateBootstrappingCloudKeySet *ck2; TFheGateBootstrappingSecretKeySet *sk2;
    if (tr == 1) { std::istringstream i1(pb), i2(cb), i3(sb); P2 = new_tfheGateBootstrappingParameterSet_fromStream(i1); ck2 = new_tfheGateBootstrappingCloudKeySet_fromStream(i2); sk2 = new_tfheGateBootstrappingSecretKeySet_fromStream(i3); }
    else { FILE *F = tmpfile(); fwrite(pb.data(), 1, pb.size(), F); rewind(F); P2 = new_tfheGateBootstrappingParameterSet_fromFile(F); fclose(F);
        F = tmpfile(); fwrite(cb.data(), 1, cb.size(), F); rewind(F); ck2 = new_tfheGateBootstrappingCloudKeySet_fromFile(F); fclose(F);
        F = tmpfile(); fwrite(sb.data(), 1, sb.size(), F); rewind(F); sk2 = new_tfheGateBootstrappingSecretKeySet_fromFile(F); fclose(F); }
    LweSample *d = new_gate_bootstrapping_ciphertext(ck2->params);
    { std::istringstream i4(tb); FILE *F = tmpfile(); fwrite(tb.data(), 1, tb.size(), F); rewind(F);
      if (tr == 1) import_gate_bootstrapping_ciphertext_fromStream(i4, d, ck2->params); else import_gate_bootstrapping_ciphertext_fromFile(F, d, ck2->params); fclose(F); }
    bootsNAND(d, d, &c[0], ck2); if (bootsSymDecrypt(d, sk2) != 1) wrong++;
    bootsXOR(d, d, &c[2], &sk2->cloud); if (bootsSymDecrypt(d, sk) != 0) wrong++;
    delete_gate_bootstrapping_ciphertext(d);
    delete_gate_bootstrapping_secret_keyset(sk2); delete_gate_bootstrapping_cloud_keyset(ck2);
    delete_gate_bootstrapping_parameters(P2);   // the set itself is the caller's; the parameter objects inside it belong to the library's collector
    delete_gate_bootstrapping_ciphertext(one); delete_gate_bootstrapping_ciphertext_array(6, c);
    delete_gate_bootstrapping_secret_keyset(sk);
    if (a[0] > 0) delete_gate_bootstrapping_parameters(P);     // the LWE/TLWE/TGSW parameter objects inside a default set belong to the collector
    else { const LweParams *lp = P->in_out_params; const TGswParams *gp = P->tgsw_params; const TLweParams *tp = gp->tlwe_params;
        delete P; delete_TGswParams((TGswParams *) gp); delete_TLweParams((TLweParams *) tp); delete_LweParams((LweParams *) lp); }
    r.push_back(wrong);
}
// fftkeylife n k l Bgbit t basebit : the lower-level key lifecycle - LweBootstrappingKey created and filled, converted to a stand-alone
//   LweBootstrappingKeyFFT, the source key deleted first, bootstrappings and a cloud key set without coefficient-domain key through the
//   FFT key, then the FFT key deleted.  prints the number of wrong signs
static void op_fftkeylife(const V &a, V &r) {
    const int n = (int) a[0], k = (int) a[1], l = (int) a[2], B = (int) a[3], t = (int) a[4], bb = (int) a[5], N = 1024;
    LweParams *lp = new_LweParams(n, pow(2., -30), 0.012467); TLweParams *tp = new_TLweParams(N, k, pow(2., -40), 0.012467); TGswParams *gp = new_TGswParams(l, B, tp);
    LweKey *lk = new_LweKey(lp); TGswKey *gk = new_TGswKey(gp); lweKeyGen(lk); tGswKeyGen(gk);
    LweBootstrappingKey *bk = new_LweBootstrappingKey(t, bb, lp, gp); tfhe_createLweBootstrappingKey(bk, lk, gk);
    LweBootstrappingKeyFFT *bf = new_LweBootstrappingKeyFFT(bk);
    delete_LweBootstrappingKey(bk);
    LweSample *x = new_LweSample(lp), *res = new_LweSample(lp); long wrong = 0;
    for (int q = 0; q < 4; q++) { lweSymEncrypt(x, (q & 1) ? (1 << 29) : -(1 << 29), pow(2., -30), lk); tfhe_bootstrap_FFT(res, bf, 1 << 29, x);
        int32_t ph = lwePhase(res, lk); if ((ph > 0) != ((q & 1) != 0)) wrong++; }
    delete_LweSample(res); delete_LweSample(x);
    delete_LweBootstrappingKeyFFT(bf);
    delete_TGswKey(gk); delete_LweKey(lk); delete_TGswParams(gp); delete_TLweParams(tp); delete_LweParams(lp);
    r.push_back(wrong);
}
static void op_small(const V &a, V &r) {
    int n = a[0]; LweParams *lp = new_LweParams(n, 0., 0.25), *lo = new_LweParams(3, 0., 0.25);
    LweSample *x = new_LweSample(lp), *y = new_LweSample(lp), *z = new_LweSample(lo);
    for (int i = 0; i < n; i++) { x->a[i] = 1000 + i; y->a[i] = 7 * i; } x->b = 5; y->b = 9;
    lweSubTo(x, y, lp); lweAddTo(x, y, lp); lweAddMulTo(x, 3, y, lp); lweSubMulTo(x, -2, y, lp); lweNegate(y, x, lp); lweSubTo(x, x, lp);
    LweKey *ki = new_LweKey(lp), *ko = new_LweKey(lo); for (int i = 0; i < n; i++) ki->key[i] = i & 1; for (int i = 0; i < 3; i++) ko->key[i] = 1;
    LweKeySwitchKey *ks = new_LweKeySwitchKey(n, 2, 2, lo); lweCreateKeySwitchKey(ks, ki, ko); lweKeySwitch(z, ks, y);
    ll acc = z->b; for (int i = 0; i < 3; i++) acc += z->a[i]; for (int i = 0; i < n; i++) acc += x->a[i];
    r.push_back(acc != 123456789);       // the value is used, so that an uninitialised read would influence a branch under memcheck
    delete_LweKeySwitchKey(ks); delete_LweKey(ko); delete_LweKey(ki); delete_LweSample(z); delete_LweSample(y); delete_LweSample(x); delete_LweParams(lo); delete_LweParams(lp);
}
static void op_threads(const V &a, V &r) {
    int count = a[0];
    auto body = []() { const int N = 1024; IntPolynomial *A = new_IntPolynomial(N); TorusPolynomial *B = new_TorusPolynomial(N), *R = new_TorusPolynomial(N);
        for (int i = 0; i < N; i++) { A->coefs[i] = i % 7 - 3; B->coefsT[i] = i * 2654435761u; } torusPolynomialMultFFT(R, A, B);
        delete_TorusPolynomial(R); delete_TorusPolynomial(B); delete_IntPolynomial(A); };
    for (int i = 0; i < 3; i++) { std::thread t(body); t.join(); }       // warm-up: allocator arenas, thread stacks cache
    struct mallinfo2 m0 = mallinfo2();
    for (int i = 0; i < count; i++) { std::thread t(body); t.join(); }
    struct mallinfo2 m1 = mallinfo2();
    r.push_back((ll) m1.uordblks - (ll) m0.uordblks); r.push_back(count);
}
// threadfirst : the FIRST user of the FFT in the process is a worker thread that exits; then the main thread and a second worker run
// products (compared with the schoolbook product).  Per-thread FFT state must not be shared with, or owned by, a thread that is gone
// (under memcheck a read of released tables is an invalid read even if the values are still there).
static void op_threadfirst(const V &a, V &r) {
    long bad = 0;
    auto body = [&bad]() { const int N = 1024; IntPolynomial *A = new_IntPolynomial(N); TorusPolynomial *B = new_TorusPolynomial(N), *R = new_TorusPolynomial(N);
        for (int i = 0; i < N; i++) { A->coefs[i] = i % 7 - 3; B->coefsT[i] = i * 2654435761u; }
        torusPolynomialMultFFT(R, A, B);
        for (int i = 0; i < N; i += 97) { uint32_t acc = 0; for (int j = 0; j < N; j++) { int q = i - j; uint32_t t = (uint32_t) A->coefs[j] * (uint32_t) B->coefsT[(q + N) % N]; acc += (q >= 0) ? t : 0u - t; }
            int32_t d = (int32_t) (acc - (uint32_t) R->coefsT[i]); if (d > 2 || d < -2) bad++; }
        delete_TorusPolynomial(R); delete_TorusPolynomial(B); delete_IntPolynomial(A); };
    { std::thread t(body); t.join(); }
    body();
    { std::thread t(body); t.join(); }
    body();
    // objects of the FFT domain allocated by a thread that exits, then transformed and released by this one
    { const int N = 1024; LagrangeHalfCPolynomial *la = 0, *lb = 0, *lc = 0; TLweParams *tp = new_TLweParams(N, 1, 0., 0.25); TLweSampleFFT *sf = 0;
      { std::thread t([&]() { la = new_LagrangeHalfCPolynomial(N); lb = new_LagrangeHalfCPolynomial(N); lc = new_LagrangeHalfCPolynomial(N); sf = new_TLweSampleFFT(tp); body(); }); t.join(); }
      IntPolynomial *A = new_IntPolynomial(N); TorusPolynomial *B = new_TorusPolynomial(N), *R = new_TorusPolynomial(N), *R2 = new_TorusPolynomial(N);
      for (int i = 0; i < N; i++) { A->coefs[i] = i % 5 - 2; B->coefsT[i] = i * 40503u + 11; }
      // (the result of Lagrange arithmetic is allocated by this thread: the library binds it to its allocator's FFT processor; transforms work on anybody's objects)
      { LagrangeHalfCPolynomial *own = new_LagrangeHalfCPolynomial(N); IntPolynomial_ifft(la, A); TorusPolynomial_ifft(lb, B); LagrangeHalfCPolynomialMul(own, la, lb); TorusPolynomial_fft(R, own);
        TorusPolynomial_ifft(lc, B); TorusPolynomial_fft(R2, lc); for (int i = 0; i < N; i++) { int32_t d = R2->coefsT[i] - B->coefsT[i]; if (d > 1 || d < -1) bad++; } delete_LagrangeHalfCPolynomial(own); }
      torusPolynomialMultFFT(R2, A, B);
      for (int i = 0; i < N; i++) if (R->coefsT[i] != R2->coefsT[i]) bad++;
      TLweSample *c = new_TLweSample(tp), *c2 = new_TLweSample(tp);
      for (int q = 0; q <= 1; q++) for (int i = 0; i < N; i++) c->a[q].coefsT[i] = (int32_t) (i * 2654435761u + q);
      tLweToFFTConvert(sf, c, tp); tLweFromFFTConvert(c2, sf, tp);
      for (int q = 0; q <= 1; q++) for (int i = 0; i < N; i++) { int32_t d = c->a[q].coefsT[i] - c2->a[q].coefsT[i]; if (d > 1 || d < -1) bad++; }
      delete_TLweSample(c2); delete_TLweSample(c); delete_TorusPolynomial(R2); delete_TorusPolynomial(R); delete_TorusPolynomial(B); delete_IntPolynomial(A);
      delete_TLweSampleFFT(sf); delete_LagrangeHalfCPolynomial(lc); delete_LagrangeHalfCPolynomial(lb); delete_LagrangeHalfCPolynomial(la); delete_TLweParams(tp); }
    r.push_back(bad);
}
#ifdef VERIF_LEDGER
// ledger <type> p1..p4 : 0 LweSample(n) 1 LweSample_array(m=p2,n) 2 LweKey(n) 3 TorusPolynomial(N) 4 IntPolynomial(N) 5 TLweSample(k=p2,N) 6 TLweKey(k,N)
//   7 TGswSample(k=p2,N,l=p3) 8 TGswKey 9 LweKeySwitchKey(n,t=p2,bb=p3,nout=p4) 10 LweBootstrappingKey(n,k=p2,l=p3; t=2,bb=2) 11 TGswParams(l=p3) 12 LweParams
//   13 TLweSample_array(m=p4,k=p2,N) 14 IntPolynomial_array(m=p2,N) 15 LagrangeHalfCPolynomial(N)  16 TGswSampleFFT(k,N,l) 17 TLweSampleFFT(k,N)
static void op_ledger(const V &a, V &r) {
    int ty = a[0] % 100; const int mode = a[0] / 100;   // mode 1: the two-phase C API (alloc_ + init_, destroy_ + free_) instead of new_ / delete_
    int p1 = a[1], p2 = a[2], p3 = a[3], p4 = a[4];
    LweParams *lp = new_LweParams(p1 > 0 ? p1 : 1, 0., 0.25), *lo = new_LweParams(p4 > 0 ? p4 : 1, 0., 0.25);
    TLweParams *tp = new_TLweParams(ty >= 20 ? 1024 : ty >= 5 && ty != 9 && ty != 12 ? (ty == 10 ? 1024 : p1) : 16, p2 > 0 ? p2 : 1, 0., 0.25); TGswParams *gp = new_TGswParams(p3 > 0 ? p3 : 1, 2, tp);
    torusPolynomialMultFFT; // (keeps the FFT symbols linked)
    { LagrangeHalfCPolynomial *w = new_LagrangeHalfCPolynomial(1024); delete_LagrangeHalfCPolynomial(w); }   // the thread's FFT processor is created on first use
    LweBootstrappingKey *bk0 = 0;
    if (ty == 33 || ty == 34) { bk0 = new_LweBootstrappingKey(2, 2, lp, gp);     // defined contents: the FFT key constructor converts them
        for (int i = 0; i < lp->n; i++) tGswClear(&bk0->bk[i], gp);
        for (int i = 0; i < bk0->ks->n; i++) for (int j = 0; j < bk0->ks->t; j++) for (int h = 0; h < bk0->ks->base; h++) lweClear(&bk0->ks->ks[i][j][h], lp); }
    void *obj = 0; reset_tab(); tracking = true;
#define TWO(T, ...) { T *o_ = alloc_##T(); init_##T(o_, __VA_ARGS__); obj = o_; }
#define TWOA(T, m_, ...) { T *o_ = alloc_##T##_array(m_); init_##T##_array(m_, o_, __VA_ARGS__); obj = o_; }
#define UNTWO(T) { destroy_##T((T *) obj); free_##T((T *) obj); }
#define UNTWOA(T, m_) { destroy_##T##_array(m_, (T *) obj); free_##T##_array(m_, (T *) obj); }
    if (mode == 1) switch (ty) {
        case 0: TWO(LweSample, lp) break; case 1: TWOA(LweSample, p2, lp) break; case 2: TWO(LweKey, lp) break;
        case 3: TWO(TorusPolynomial, p1) break; case 4: TWO(IntPolynomial, p1) break; case 5: TWO(TLweSample, tp) break; case 6: TWO(TLweKey, tp) break;
        case 7: TWO(TGswSample, gp) break; case 8: TWO(TGswKey, gp) break; case 9: TWO(LweKeySwitchKey, p1, p2, p3, lo) break;
        case 10: TWO(LweBootstrappingKey, 2, 2, lp, gp) break; case 11: TWO(TGswParams, p3, 2, tp) break; case 12: TWO(LweParams, p1, 0., 0.25) break;
        case 13: TWOA(TLweSample, p4, tp) break; case 14: TWOA(IntPolynomial, p2, p1) break; case 15: TWO(LagrangeHalfCPolynomial, p1) break;
        case 16: TWO(TGswSampleFFT, gp) break; case 17: TWO(TLweSampleFFT, tp) break;
        case 20: TWOA(LweKey, p4, lp) break; case 21: TWOA(TorusPolynomial, p4, p1) break; case 22: TWOA(TLweKey, p4, tp) break;
        case 23: TWOA(TGswSample, p4, gp) break; case 24: TWOA(TGswKey, p4, gp) break; case 25: TWOA(LweKeySwitchKey, p4, 3, 2, 1, lo) break;
        case 26: TWOA(LweBootstrappingKey, p4, 2, 2, lp, gp) break; case 27: TWOA(LagrangeHalfCPolynomial, p4, p1) break;
        case 28: TWOA(TGswSampleFFT, p4, gp) break; case 29: TWOA(TLweSampleFFT, p4, tp) break;
        case 30: TWOA(LweParams, p4, p1, 0., 0.25) break; case 31: TWOA(TLweParams, p4, p1, p2, 0., 0.25) break; case 32: TWOA(TGswParams, p4, p3, 2, tp) break;
        case 33: TWO(LweBootstrappingKeyFFT, bk0) break; case 34: TWOA(LweBootstrappingKeyFFT, p4, bk0) break;
    } else
    switch (ty) {
        case 0: obj = new_LweSample(lp); break; case 1: obj = new_LweSample_array(p2, lp); break; case 2: obj = new_LweKey(lp); break;
        case 3: obj = new_TorusPolynomial(p1); break; case 4: obj = new_IntPolynomial(p1); break; case 5: obj = new_TLweSample(tp); break; case 6: obj = new_TLweKey(tp); break;
        case 7: obj = new_TGswSample(gp); break; case 8: obj = new_TGswKey(gp); break; case 9: obj = new_LweKeySwitchKey(p1, p2, p3, lo); break;
        case 10: obj = new_LweBootstrappingKey(2, 2, lp, gp); break; case 11: obj = new_TGswParams(p3, 2, tp); break; case 12: obj = new_LweParams(p1, 0., 0.25); break;
        case 13: obj = new_TLweSample_array(p4, tp); break; case 14: obj = new_IntPolynomial_array(p2, p1); break; case 15: obj = new_LagrangeHalfCPolynomial(p1); break;
        case 16: obj = new_TGswSampleFFT(gp); break; case 17: obj = new_TLweSampleFFT(tp); break;
        // array constructors and FFT-domain keys (balance only: nothing may stay allocated after the matching delete)
        case 20: obj = new_LweKey_array(p4, lp); break; case 21: obj = new_TorusPolynomial_array(p4, p1); break; case 22: obj = new_TLweKey_array(p4, tp); break;
        case 23: obj = new_TGswSample_array(p4, gp); break; case 24: obj = new_TGswKey_array(p4, gp); break; case 25: obj = new_LweKeySwitchKey_array(p4, 3, 2, 1, lo); break;
        case 26: obj = new_LweBootstrappingKey_array(p4, 2, 2, lp, gp); break; case 27: obj = new_LagrangeHalfCPolynomial_array(p4, p1); break;
        case 28: obj = new_TGswSampleFFT_array(p4, gp); break; case 29: obj = new_TLweSampleFFT_array(p4, tp); break;
        case 30: obj = new_LweParams_array(p4, p1, 0., 0.25); break; case 31: obj = new_TLweParams_array(p4, p1, p2, 0., 0.25); break; case 32: obj = new_TGswParams_array(p4, p3, 2, tp); break;
        case 33: obj = new_LweBootstrappingKeyFFT(bk0); break; case 34: obj = new_LweBootstrappingKeyFFT_array(p4, bk0); break;
    }
    tracking = false;
    r.push_back(sizeof(LweSample)); r.push_back(sizeof(LweKey)); r.push_back(sizeof(TorusPolynomial)); r.push_back(sizeof(TLweSample)); r.push_back(sizeof(TLweKey));
    r.push_back(sizeof(TGswSample)); r.push_back(sizeof(TGswKey)); r.push_back(sizeof(LweKeySwitchKey)); r.push_back(sizeof(LweBootstrappingKey)); r.push_back(sizeof(TGswParams)); r.push_back(sizeof(LweParams));
    r.push_back((ll) live_blocks); live_sizes(r);
    tracking = true;
    if (mode == 1) switch (ty) {
        case 0: UNTWO(LweSample) break; case 1: UNTWOA(LweSample, p2) break; case 2: UNTWO(LweKey) break; case 3: UNTWO(TorusPolynomial) break; case 4: UNTWO(IntPolynomial) break;
        case 5: UNTWO(TLweSample) break; case 6: UNTWO(TLweKey) break; case 7: UNTWO(TGswSample) break; case 8: UNTWO(TGswKey) break; case 9: UNTWO(LweKeySwitchKey) break;
        case 10: UNTWO(LweBootstrappingKey) break; case 11: UNTWO(TGswParams) break; case 12: UNTWO(LweParams) break; case 13: UNTWOA(TLweSample, p4) break; case 14: UNTWOA(IntPolynomial, p2) break;
        case 15: UNTWO(LagrangeHalfCPolynomial) break; case 16: UNTWO(TGswSampleFFT) break; case 17: UNTWO(TLweSampleFFT) break;
        case 20: UNTWOA(LweKey, p4) break; case 21: UNTWOA(TorusPolynomial, p4) break; case 22: UNTWOA(TLweKey, p4) break; case 23: UNTWOA(TGswSample, p4) break; case 24: UNTWOA(TGswKey, p4) break;
        case 25: UNTWOA(LweKeySwitchKey, p4) break; case 26: UNTWOA(LweBootstrappingKey, p4) break; case 27: UNTWOA(LagrangeHalfCPolynomial, p4) break;
        case 28: UNTWOA(TGswSampleFFT, p4) break; case 29: UNTWOA(TLweSampleFFT, p4) break; case 30: UNTWOA(LweParams, p4) break; case 31: UNTWOA(TLweParams, p4) break; case 32: UNTWOA(TGswParams, p4) break;
        case 33: UNTWO(LweBootstrappingKeyFFT) break; case 34: UNTWOA(LweBootstrappingKeyFFT, p4) break;
    } else
    switch (ty) {
        case 0: delete_LweSample((LweSample *) obj); break; case 1: delete_LweSample_array(p2, (LweSample *) obj); break; case 2: delete_LweKey((LweKey *) obj); break;
        case 3: delete_TorusPolynomial((TorusPolynomial *) obj); break; case 4: delete_IntPolynomial((IntPolynomial *) obj); break; case 5: delete_TLweSample((TLweSample *) obj); break;
        case 6: delete_TLweKey((TLweKey *) obj); break; case 7: delete_TGswSample((TGswSample *) obj); break; case 8: delete_TGswKey((TGswKey *) obj); break;
        case 9: delete_LweKeySwitchKey((LweKeySwitchKey *) obj); break; case 10: delete_LweBootstrappingKey((LweBootstrappingKey *) obj); break; case 11: delete_TGswParams((TGswParams *) obj); break;
        case 12: delete_LweParams((LweParams *) obj); break; case 13: delete_TLweSample_array(p4, (TLweSample *) obj); break; case 14: delete_IntPolynomial_array(p2, (IntPolynomial *) obj); break;
        case 15: delete_LagrangeHalfCPolynomial((LagrangeHalfCPolynomial *) obj); break; case 16: delete_TGswSampleFFT((TGswSampleFFT *) obj); break; case 17: delete_TLweSampleFFT((TLweSampleFFT *) obj); break;
        case 20: delete_LweKey_array(p4, (LweKey *) obj); break; case 21: delete_TorusPolynomial_array(p4, (TorusPolynomial *) obj); break; case 22: delete_TLweKey_array(p4, (TLweKey *) obj); break;
        case 23: delete_TGswSample_array(p4, (TGswSample *) obj); break; case 24: delete_TGswKey_array(p4, (TGswKey *) obj); break; case 25: delete_LweKeySwitchKey_array(p4, (LweKeySwitchKey *) obj); break;
        case 26: delete_LweBootstrappingKey_array(p4, (LweBootstrappingKey *) obj); break; case 27: delete_LagrangeHalfCPolynomial_array(p4, (LagrangeHalfCPolynomial *) obj); break;
        case 28: delete_TGswSampleFFT_array(p4, (TGswSampleFFT *) obj); break; case 29: delete_TLweSampleFFT_array(p4, (TLweSampleFFT *) obj); break;
        case 30: delete_LweParams_array(p4, (LweParams *) obj); break; case 31: delete_TLweParams_array(p4, (TLweParams *) obj); break; case 32: delete_TGswParams_array(p4, (TGswParams *) obj); break;
        case 33: delete_LweBootstrappingKeyFFT((LweBootstrappingKeyFFT *) obj); break; case 34: delete_LweBootstrappingKeyFFT_array(p4, (LweBootstrappingKeyFFT *) obj); break;
    }
    tracking = false;
    r.push_back(-1); r.push_back((ll) live_blocks); r.push_back((ll) live_bytes);
    if (bk0) delete_LweBootstrappingKey(bk0);
    delete_TGswParams(gp); delete_TLweParams(tp); delete_LweParams(lo); delete_LweParams(lp);
}
// lifeleak: a whole lifecycle with the allocator tracked: blocks still live afterwards (parameter objects owned by the collector excepted: reported separately)
static void op_lifeleak(const V &a, V &r) {
    V dummy; dummy.reserve(64); V b(a); reset_tab();     // (the result vector must not allocate while the allocator is tracked)
    op_life(b, dummy);                       // warm-up outside tracking: function-local static constants, iostream/FILE buffers
    TfheGarbageCollector::finalize();
    dummy.clear(); reset_tab(); tracking = true; op_life(b, dummy); TfheGarbageCollector::finalize(); tracking = false;   // the collector owns imported parameter objects
    r.push_back((ll) live_blocks); r.push_back((ll) live_bytes); V s; live_sizes(s); for (size_t i = 0; i < s.size() && i < 12; i++) r.push_back(s[i]);
}
#endif

// aliases n k l t basebit : the convenience pointers inside freshly built objects point where the documentation says
//   (TLweSample.b = a + k, TLweSampleFFT.b = a + k, TGswSample.bloc_sample[u] = all_sample + u*l, TGswSampleFFT.sample[u] = all_samples + u*l,
//    TGswKey.key = tlwe_key.key, LweKeySwitchKey.ks[i] = ks1_raw + i*t, ks[i][j] = ks0_raw + (i*t+j)*base, fields k/l/n/t/base as requested,
//    fresh variances 0); prints the number of violated invariants and the first violated one
static void op_aliases(const V &a, V &r) {
    int n = a[0], k = a[1], l = a[2], t = a[3], bb = a[4]; const int N = 1024, base = 1 << bb;
    LweParams *lp = new_LweParams(n, 0., 0.25); TLweParams *tp = new_TLweParams(N, k, 0., 0.25); TGswParams *gp = new_TGswParams(l, 2, tp);
    long bad = 0, first = 0; int id = 0;
    auto chk = [&](bool ok) { id++; if (!ok) { if (!bad) first = id; bad++; } };
    TLweSample *ts = new_TLweSample(tp); chk(ts->b == ts->a + k); chk(ts->k == k); chk(ts->current_variance == 0.); chk(ts->a[0].N == N && ts->a[k].N == N);
    TLweSampleFFT *tf = new_TLweSampleFFT(tp); chk((void *) tf->b == (void *) (tf->a + k)); chk(tf->k == k);
    TLweSample *ta = new_TLweSample_array(3, tp); for (int q = 0; q < 3; q++) chk(ta[q].b == ta[q].a + k);
    TGswSample *gs = new_TGswSample(gp); for (int u = 0; u <= k; u++) chk(gs->bloc_sample[u] == gs->all_sample + u * l); chk(gs->k == k && gs->l == l);
    for (int q = 0; q < (k + 1) * l; q++) chk(gs->all_sample[q].b == gs->all_sample[q].a + k);
    TGswSampleFFT *gf = new_TGswSampleFFT(gp); for (int u = 0; u <= k; u++) chk(gf->sample[u] == gf->all_samples + u * l); chk(gf->k == k && gf->l == l);
    for (int q = 0; q < (k + 1) * l; q++) chk((void *) gf->all_samples[q].b == (void *) (gf->all_samples[q].a + k));
    TGswKey *gk = new_TGswKey(gp); chk(gk->key == gk->tlwe_key.key); chk(gk->tlwe_params == tp); chk(gk->params == gp); chk(gk->tlwe_key.params == tp);
    TLweKey *tk = new_TLweKey(tp); chk(tk->params == tp); for (int u = 0; u < k; u++) chk(tk->key[u].N == N);
    LweKey *lk = new_LweKey(lp); chk(lk->params == lp);
    LweSample *ls = new_LweSample(lp); chk(ls->current_variance == 0.); chk(ls->b == 0);
    LweKeySwitchKey *ks = new_LweKeySwitchKey(5, t, bb, lp); chk(ks->n == 5 && ks->t == t && ks->basebit == bb && ks->base == base && ks->out_params == lp);
    for (int i = 0; i < 5; i++) { chk(ks->ks[i] == ks->ks1_raw + i * t); for (int j = 0; j < t; j++) chk(ks->ks[i][j] == ks->ks0_raw + (i * t + j) * base); }
    LweBootstrappingKey *bk = new_LweBootstrappingKey(t, bb, lp, gp);
    chk(bk->in_out_params == lp && bk->bk_params == gp && bk->accum_params == tp && bk->extract_params == &tp->extracted_lweparams);
    chk(bk->ks->n == k * N && bk->ks->t == t && bk->ks->basebit == bb && bk->ks->out_params == lp);
    chk(tp->extracted_lweparams.n == k * N); chk(gp->kpl == (k + 1) * l); chk(gp->tlwe_params == tp);
    delete_LweBootstrappingKey(bk); delete_LweKeySwitchKey(ks); delete_LweSample(ls); delete_LweKey(lk); delete_TLweKey(tk); delete_TGswKey(gk);
    delete_TGswSampleFFT(gf); delete_TGswSample(gs); delete_TLweSample_array(3, ta); delete_TLweSampleFFT(tf); delete_TLweSample(ts);
    delete_TGswParams(gp); delete_TLweParams(tp); delete_LweParams(lp);
    r.push_back(bad); r.push_back(first); r.push_back(id);
}

// arrays m : every _array constructor / destructor pair once with m elements (run under ASan: no interposition needed)
static void op_arrays(const V &a, V &r) {
    int m = a[0]; const int N = 1024;
    LweParams *lp = new_LweParams(7, 0., 0.25); TLweParams *tp = new_TLweParams(N, 2, 0., 0.25); TGswParams *gp = new_TGswParams(2, 8, tp);
    { LweSample *x = new_LweSample_array(m, lp); for (int i = 0; i < m; i++) x[i].a[6] = i; delete_LweSample_array(m, x); }
    { LweKey *x = new_LweKey_array(m, lp); for (int i = 0; i < m; i++) x[i].key[6] = i; delete_LweKey_array(m, x); }
    { TorusPolynomial *x = new_TorusPolynomial_array(m, N); for (int i = 0; i < m; i++) x[i].coefsT[N - 1] = i; delete_TorusPolynomial_array(m, x); }
    { IntPolynomial *x = new_IntPolynomial_array(m, N); for (int i = 0; i < m; i++) x[i].coefs[N - 1] = i; delete_IntPolynomial_array(m, x); }
    { LagrangeHalfCPolynomial *x = new_LagrangeHalfCPolynomial_array(m, N); for (int i = 0; i < m; i++) LagrangeHalfCPolynomialClear(x + i); delete_LagrangeHalfCPolynomial_array(m, x); }
    { TLweSample *x = new_TLweSample_array(m, tp); for (int i = 0; i < m; i++) x[i].b->coefsT[N - 1] = i; delete_TLweSample_array(m, x); }
    { TLweSampleFFT *x = new_TLweSampleFFT_array(m, tp); for (int i = 0; i < m; i++) LagrangeHalfCPolynomialClear(x[i].a + 2); delete_TLweSampleFFT_array(m, x); }
    { TLweKey *x = new_TLweKey_array(m, tp); for (int i = 0; i < m; i++) x[i].key[1].coefs[N - 1] = i; delete_TLweKey_array(m, x); }
    { TGswSample *x = new_TGswSample_array(m, gp); for (int i = 0; i < m; i++) x[i].bloc_sample[2][1].b->coefsT[N - 1] = i; delete_TGswSample_array(m, x); }
    { TGswSampleFFT *x = new_TGswSampleFFT_array(m, gp); for (int i = 0; i < m; i++) LagrangeHalfCPolynomialClear(x[i].sample[2][1].a + 2); delete_TGswSampleFFT_array(m, x); }
    { TGswKey *x = new_TGswKey_array(m, gp); for (int i = 0; i < m; i++) x[i].key[1].coefs[N - 1] = i; delete_TGswKey_array(m, x); }
    { LweKeySwitchKey *x = new_LweKeySwitchKey_array(m, 3, 2, 2, lp); for (int i = 0; i < m; i++) x[i].ks[2][1][3].a[6] = i; delete_LweKeySwitchKey_array(m, x); }
    { LweBootstrappingKey *x = new_LweBootstrappingKey_array(m, 2, 2, lp, gp); for (int i = 0; i < m; i++) x[i].bk[6].all_sample[5].b->coefsT[N - 1] = i; delete_LweBootstrappingKey_array(m, x); }
    { LweParams *x = new_LweParams_array(m, 5, 0., 0.25); delete_LweParams_array(m, x); }
    { TLweParams *x = new_TLweParams_array(m, N, 2, 0., 0.25); delete_TLweParams_array(m, x); }
    { TGswParams *x = new_TGswParams_array(m, 3, 4, tp); for (int i = 0; i < m; i++) r.push_back(x[i].h[2]); delete_TGswParams_array(m, x); }
    delete_TGswParams(gp); delete_TLweParams(tp); delete_LweParams(lp);
}

// karamem <size> <trials> <seed> : Karatsuba_aux on caller-provided arrays of exactly the size the model predicts, each followed by
//   guard words; prints: highest written byte offset of buf + 1 (max over trials), 1 if every guard survived, 1 if the result
//   equals the schoolbook product.  Under ASan the arrays are exact-size heap blocks (an access past them aborts).
extern "C" void Karatsuba_aux(Torus32 *R, const int32_t *A, const Torus32 *B, const int32_t size, const char *buf);
static void op_karamem(const V &a, V &r) {
    const int size = (int) a[0], trials = (int) a[1]; unsigned seed = (unsigned) a[2]; const size_t use = (size_t) a[3];
    size_t hw = 0; bool guards = true, right = true;
    for (int t = 0; t < trials; t++) {
        srand(seed + t);
        const size_t G = 64;
        std::vector<int32_t> A(size), B(size);
        for (int i = 0; i < size; i++) { A[i] = (int32_t) ((unsigned) rand() * 2654435761u); B[i] = (int32_t) ((unsigned) rand() * 40503u + (unsigned) rand()); }
        // exact-size blocks (ASan redzones right behind them) for R and for the workspace
        Torus32 *R = (Torus32 *) malloc(sizeof(Torus32) * (size_t) (2 * size - 1));
        char *buf = (char *) malloc(use ? use : 1);
        memset(buf, 0xA5, use ? use : 1);
        for (int i = 0; i < 2 * size - 1; i++) R[i] = 0x5A5A5A5A;
        // second run on padded arrays to locate the high-water mark and to see writes behind the predicted end without dying
        Karatsuba_aux(R, A.data(), B.data(), size, buf);
        for (size_t i = use; i > 0; i--) if ((unsigned char) buf[i - 1] != 0xA5) { if (i > hw) hw = i; break; }
        std::vector<char> big(use + 4 * G, (char) 0xA5); std::vector<Torus32> R2(2 * size - 1 + G, 0x5A5A5A5A);
        Karatsuba_aux(R2.data(), A.data(), B.data(), size, big.data());
        for (size_t i = use; i < big.size(); i++) if ((unsigned char) big[i] != 0xA5) guards = false;
        for (size_t i = 2 * size - 1; i < R2.size(); i++) if (R2[i] != 0x5A5A5A5A) guards = false;
        for (int i = 0; i < 2 * size - 1; i++) {
            uint32_t acc = 0; for (int j = 0; j < size; j++) { int q = i - j; if (q >= 0 && q < size) acc += (uint32_t) A[j] * (uint32_t) B[q]; }
            if ((int32_t) acc != R[i] || R[i] != R2[i]) right = false;
        }
        free(buf); free(R);
    }
    r.push_back((ll) hw); r.push_back(guards); r.push_back(right);
}

#ifdef VERIF_LEDGER
// allocfail <fn> <N> <k> <l> <Bgbit> <seed> : every allocation request made inside one library call fails in turn (one forked child per
//   fault point).  A call whose allocation fails may report it (std::bad_alloc reaches the caller, or the process dies); it must not
//   return normally with a result different from the one of the undisturbed call.
//   fn 0-2 torusPolynomial{Mult,AddMulR,SubMulR}Karatsuba  3-5 the same through the FFT  6 tGswExternMulToTLwe  7 tGswFFTExternMulToTLwe
//      8 tGswExternProduct  9 tLweSymDecryptT
//   prints: allocations of the undisturbed call, #right, #reported (exception), #died, #silently wrong, first fault point that was silently wrong (0 = none)
struct AFCase {
    int fn, N, k, l, B; TorusPolynomial *res, *tb, *res0; IntPolynomial *ia; TLweParams *tp; TGswParams *gp; TGswSample *g; TGswSampleFFT *gf; TLweSample *acc, *acc0, *out; TLweKey *tk;
    Torus32 dec;
    void reset() { if (fn <= 5) for (int j = 0; j < N; j++) res->coefsT[j] = res0->coefsT[j]; else for (int i = 0; i <= k; i++) for (int j = 0; j < N; j++) { acc->a[i].coefsT[j] = acc0->a[i].coefsT[j]; out->a[i].coefsT[j] = 0x1234567; } dec = 0; }
    void call() {
        switch (fn) {
        case 0: torusPolynomialMultKaratsuba(res, ia, tb); break;   case 1: torusPolynomialAddMulRKaratsuba(res, ia, tb); break;
        case 2: torusPolynomialSubMulRKaratsuba(res, ia, tb); break; case 3: torusPolynomialMultFFT(res, ia, tb); break;
        case 4: torusPolynomialAddMulRFFT(res, ia, tb); break;       case 5: torusPolynomialSubMulRFFT(res, ia, tb); break;
        case 6: tGswExternMulToTLwe(acc, g, gp); break;              case 7: tGswFFTExternMulToTLwe(acc, gf, gp); break;
        case 8: tGswExternProduct(out, g, acc, gp); break;           default: dec = tLweSymDecryptT(acc, tk, 8); break;
        }
    }
    void snapshot(std::vector<Torus32> &v) { v.clear(); if (fn <= 5) for (int j = 0; j < N; j++) v.push_back(res->coefsT[j]);
        else { for (int i = 0; i <= k; i++) for (int j = 0; j < N; j++) { v.push_back(acc->a[i].coefsT[j]); v.push_back(out->a[i].coefsT[j]); } v.push_back(dec); } }
};
static void op_allocfail(const V &a, V &r) {
    if (a[0] > 2 && a[1] != 1024) { r.push_back(-1); return; }   // everything but Karatsuba goes through the FFT (N = 1024 only)
    AFCase c; c.fn = (int) a[0]; c.N = (int) a[1]; c.k = (int) a[2]; c.l = (int) a[3]; c.B = (int) a[4]; srand((unsigned) a[5]);
    auto rnd = []() { return (int32_t) (((unsigned) rand() << 16) ^ (unsigned) rand()); };
    c.tp = new_TLweParams(c.N, c.k, 0., 1.); c.gp = new_TGswParams(c.l, c.B, c.tp);
    c.res = new_TorusPolynomial(c.N); c.tb = new_TorusPolynomial(c.N); c.res0 = new_TorusPolynomial(c.N); c.ia = new_IntPolynomial(c.N);
    for (int j = 0; j < c.N; j++) { c.res0->coefsT[j] = rnd(); c.tb->coefsT[j] = rnd(); c.ia->coefs[j] = rnd() % 1024; }
    c.g = new_TGswSample(c.gp); c.gf = c.N == 1024 ? new_TGswSampleFFT(c.gp) : NULL; c.acc = new_TLweSample(c.tp); c.acc0 = new_TLweSample(c.tp); c.out = new_TLweSample(c.tp); c.tk = new_TLweKey(c.tp);
    for (int p = 0; p < (c.k + 1) * c.l; p++) for (int i = 0; i <= c.k; i++) for (int j = 0; j < c.N; j++) c.g->all_sample[p].a[i].coefsT[j] = rnd();
    for (int i = 0; i <= c.k; i++) for (int j = 0; j < c.N; j++) c.acc0->a[i].coefsT[j] = rnd();
    for (int i = 0; i < c.k; i++) for (int j = 0; j < c.N; j++) c.tk->key[i].coefs[j] = rand() & 1;
    if (c.N == 1024) tGswToFFTConvert(c.gf, c.g, c.gp);
    std::vector<Torus32> ref, got; ref.reserve(4 * (c.k + 1) * c.N + 8); got.reserve(4 * (c.k + 1) * c.N + 8);
    c.reset(); c.call(); c.snapshot(ref);                       // warm-up (per-thread FFT state exists from here on) and reference
    c.reset(); af_count = 0; af_fail_at = 0; af_on = true; c.call(); af_on = false; long total = af_count; c.snapshot(got);
    ll right = 0, reported = 0, died = 0, wrong = 0, first = 0;
    if (got != ref) { wrong++; first = -1; }
    for (long kf = 1; kf <= total && kf <= 64; kf++) {
        int fd[2]; if (pipe(fd)) abort();
        fflush(stdout);
        pid_t pid = fork();
        if (pid == 0) {
            close(fd[0]); char oc = 'r';
            c.reset(); af_count = 0; af_fail_at = kf;
            try { af_on = true; c.call(); af_on = false; c.snapshot(got); oc = (got == ref) ? 'r' : 'w'; }
            catch (...) { af_on = false; oc = 'e'; }
            if (write(fd[1], &oc, 1) != 1) _exit(3);
            _exit(0);
        }
        close(fd[1]); char oc = 'd'; if (read(fd[0], &oc, 1) != 1) oc = 'd'; close(fd[0]);
        int st = 0; waitpid(pid, &st, 0);
        if (oc == 'r') right++; else if (oc == 'e') reported++; else if (oc == 'w') { wrong++; if (!first) first = kf; } else died++;
    }
    r.push_back(total); r.push_back(right); r.push_back(reported); r.push_back(died); r.push_back(wrong); r.push_back(first);
    delete_TLweKey(c.tk); delete_TLweSample(c.out); delete_TLweSample(c.acc0); delete_TLweSample(c.acc); if (c.gf) delete_TGswSampleFFT(c.gf); delete_TGswSample(c.g);
    delete_IntPolynomial(c.ia); delete_TorusPolynomial(c.res0); delete_TorusPolynomial(c.tb); delete_TorusPolynomial(c.res); delete_TGswParams(c.gp); delete_TLweParams(c.tp);
}
#endif

// exitlife variant full lambda : objects that refer to library-owned (collector-registered) parameter objects are released DURING PROCESS TERMINATION, by
//   clean-up code the application registered before it first used the library: variant 0 = atexit() at the top of the program, 1 = a static RAII holder.
//   Must be the first library use of the process (feed it as the only line); the interesting part happens after main returns.
static struct ExitBag { TFheGateBootstrappingParameterSet *P; LweKey *lk; TGswKey *gk; LweBootstrappingKey *bk; LweSample *ct; TFheGateBootstrappingSecretKeySet *sk; } g_exitbag;
static void exit_cleanup() {
    ExitBag &g = g_exitbag;
    if (g.ct) delete_gate_bootstrapping_ciphertext_array(4, g.ct);
    if (g.bk) delete_LweBootstrappingKey(g.bk);
    if (g.gk) delete_TGswKey(g.gk);
    if (g.lk) delete_LweKey(g.lk);
    if (g.sk) delete_gate_bootstrapping_secret_keyset(g.sk);
    if (g.P) delete_gate_bootstrapping_parameters(g.P);          // the set itself is the caller's; the three parameter objects inside stay with the library
    g = ExitBag();
}
struct ExitHolder { ~ExitHolder() { exit_cleanup(); } };
// delorder lambda : the parameter SET object (the caller's; the three parameter objects inside stay with the library) is deleted BEFORE the key sets
//   made from it, then the key sets (assembled from allocated parts: deletion does not depend on their contents)
static void op_delorder(const V &a, V &r) {
    int lambda = a.size() > 0 ? (int) a[0] : 128;
    for (int which = 0; which < 2; which++) {
        TFheGateBootstrappingParameterSet *P = new_default_gate_bootstrapping_parameters(lambda);
        LweBootstrappingKey *bk = new_LweBootstrappingKey(P->ks_t, P->ks_basebit, P->in_out_params, P->tgsw_params);
        if (which == 0) {
            LweKey *lk = new_LweKey(P->in_out_params); TGswKey *gk = new_TGswKey(P->tgsw_params);
            TFheGateBootstrappingSecretKeySet *sk = new TFheGateBootstrappingSecretKeySet(P, bk, NULL, lk, gk);
            delete_gate_bootstrapping_parameters(P);
            delete_gate_bootstrapping_secret_keyset(sk);
        } else {
            TFheGateBootstrappingCloudKeySet *ck = new TFheGateBootstrappingCloudKeySet(P, bk, NULL);
            delete_gate_bootstrapping_parameters(P);
            delete_gate_bootstrapping_cloud_keyset(ck);
        }
    }
    r.push_back(1);
}
static void op_exitlife(const V &a, V &r) {
    int variant = a.size() > 0 ? (int) a[0] : 0, full = a.size() > 1 ? (int) a[1] : 0, lambda = a.size() > 2 ? (int) a[2] : 128;
    if (variant == 0) atexit(exit_cleanup); else { static ExitHolder holder; (void) holder; }
    TFheGateBootstrappingParameterSet *P = new_default_gate_bootstrapping_parameters(lambda);
    ExitBag &g = g_exitbag; g.P = P;
    g.lk = new_LweKey(P->in_out_params); lweKeyGen(g.lk);
    g.gk = new_TGswKey(P->tgsw_params); tGswKeyGen(g.gk);
    g.bk = new_LweBootstrappingKey(P->ks_t, P->ks_basebit, P->in_out_params, P->tgsw_params);
    g.ct = new_gate_bootstrapping_ciphertext_array(4, P);
    if (full) { g.sk = new_random_gate_bootstrapping_secret_keyset(P); bootsSymEncrypt(g.ct, 1, g.sk); bootsNAND(g.ct + 1, g.ct, g.ct, &g.sk->cloud); r.push_back(bootsSymDecrypt(g.ct + 1, g.sk)); }
    r.push_back(1);
}
int main() {
    std::string line;
    while (std::getline(std::cin, line)) {
        std::istringstream is(line); std::string op; if (!(is >> op)) { putchar('\n'); fflush(stdout); continue; }
        V a; ll x; while (is >> x) a.push_back(x);
        V r;
        if (op == "life") op_life(a, r);
        else if (op == "exitlife") op_exitlife(a, r);
        else if (op == "delorder") op_delorder(a, r);
        else if (op == "small") op_small(a, r);
        else if (op == "fftkeylife") op_fftkeylife(a, r);
        else if (op == "threads") op_threads(a, r);
        else if (op == "karamem") op_karamem(a, r);
        else if (op == "threadfirst") op_threadfirst(a, r);
        else if (op == "aliases") op_aliases(a, r);
        else if (op == "arrays") op_arrays(a, r);
#ifdef VERIF_LEDGER
        else if (op == "ledger") op_ledger(a, r);
        else if (op == "lifeleak") op_lifeleak(a, r);
        else if (op == "allocfail") op_allocfail(a, r);
#endif
        else { puts("NOOP"); fflush(stdout); continue; }
        printf("ok"); for (ll v : r) printf(" %lld", v); putchar('\n'); fflush(stdout);
    }
    return 0;
}
