// harness/guard_new.h — arrays that end at an inaccessible page.  While vguard::on is non-zero (per thread), every `new T[n]` of the
// process - the coefficient arrays of polynomials and LWE samples the library allocates, its temporaries included - is placed so that the
// array (rounded up to 16 bytes, the alignment operator new[] guarantees) ends flush with a PROT_NONE page: a kernel that loads or stores past
// the end of an operand (an over-wide vector load in hand-written assembly, which ASan does not instrument; a loop tail) dies with SIGSEGV
// instead of touching whatever the heap happened to hold there.  Off, new[]/delete[] are malloc/free as usual.
// Include in exactly one translation unit of the harness.
#pragma once
#if defined(__SANITIZE_ADDRESS__) || defined(__SANITIZE_THREAD__)
namespace vguard { static thread_local int on = 0; static long served = 0; struct Scope { explicit Scope(int = 1) {} }; }   // the sanitizers own new[]
#else
#include <sys/mman.h>
#include <cstdlib>
#include <new>
#include <mutex>
#include <unordered_map>
namespace vguard {
static thread_local int on = 0;
static long served = 0;
static std::mutex mu;
static std::unordered_map<void *, size_t> *live = nullptr;      // data pointer -> length of the whole mapping
static void *alloc(size_t sz) {
    const size_t pg = 4096; size_t body = (sz + 15) & ~(size_t) 15; if (!body) body = 16;
    size_t npages = (body + pg - 1) / pg, tot = (npages + 2) * pg;           // [spare page][data pages][PROT_NONE page]
    char *m = (char *) mmap(0, tot, PROT_READ | PROT_WRITE, MAP_PRIVATE | MAP_ANONYMOUS, -1, 0);
    if (m == (char *) MAP_FAILED) return nullptr;
    if (mprotect(m + tot - pg, pg, PROT_NONE)) abort();
    if (mprotect(m, pg, PROT_NONE)) abort();                                  // and nothing readable in front of the first data page either
    void *p = m + tot - pg - body;
    int was = on; on = 0;                                                      // the bookkeeping itself allocates
    { std::lock_guard<std::mutex> g(mu); if (!live) live = new std::unordered_map<void *, size_t>(); (*live)[p] = tot; served++; }
    on = was;
    return p;
}
static bool release(void *p) {
    size_t tot = 0;
    { std::lock_guard<std::mutex> g(mu); if (!live) return false; auto it = live->find(p); if (it == live->end()) return false; tot = it->second; live->erase(it); }
    const size_t pg = 4096;
    // mapping = [start, start + tot); data ends at start + tot - pg; p lies in the first data page: start = floor(p) - pg
    char *start = (char *) ((size_t) p & ~(pg - 1)) - pg;
    munmap(start, tot);
    return true;
}
struct Scope { int was; explicit Scope(int v = 1) : was(on) { on = v; } ~Scope() { on = was; } };
}
void *operator new[](size_t sz) {
    void *p = vguard::on ? vguard::alloc(sz) : malloc(sz ? sz : 1);
    if (!p) throw std::bad_alloc();
    return p;
}
void operator delete[](void *p) noexcept { if (p && !vguard::release(p)) free(p); }
void operator delete[](void *p, size_t) noexcept { if (p && !vguard::release(p)) free(p); }
#endif
