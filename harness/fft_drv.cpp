// harness/fft_drv.cpp — FFT-domain operations of the back-end the binary is linked with (C10, C06).
//   fft <opc> N ...  -> the N coefficients the library returns
//   0 a b      torusPolynomialMultFFT        1 a b c   c + a*b (AddMulRFFT)     2 a b c   c - a*b (SubMulRFFT)
//   3 b        TorusPolynomial_ifft then _fft (round trip)
//   4 T (a_i b_i)*T   Lagrange-domain accumulation: clear; += ifft(a_i)*ifft(b_i); one fft at the end
//   5 b c      ifft(b) + ifft(c) (LagrangeHalfCPolynomialAddTo), fft
//   6 b mu     ifft(b), AddTorusConstant(mu), fft           7 mu   SetTorusConstant(mu), fft
//   8 -        Clear, fft                                   9 a b c  ifft(c) - ifft(a)*ifft(b) (SubMul), fft
//   10 a b     LagrangeHalfCPolynomialMul then fft (as 0, through the Lagrange API)
//   11 a       IntPolynomial_ifft then TorusPolynomial_fft (round trip of an integer polynomial)
#include <cstdio>
#include <cstdlib>
#include <cstring>
#include <string>
#include <vector>
#include <iostream>
#include "tfhe.h"
#include "polynomials_arithmetic.h"
#include "lagrangehalfc_arithmetic.h"
#include "guard_new.h"
typedef long long ll;
typedef std::vector<ll> V;

int main() {
    std::string line;
    while (std::getline(std::cin, line)) {
        const char *s = line.c_str(); while (*s == ' ') s++;
        const char *e = s; while (*e && *e != ' ') e++;
        std::string op(s, e - s);
        if (op == "guard") { vguard::on = atoi(e); printf("1 %ld\n", vguard::served); fflush(stdout); continue; }   // arrays end at an inaccessible page from here on (guard_new.h)
        if (op != "fft") { puts(op.empty() ? "" : "NOOP"); fflush(stdout); continue; }
        V a; char *q = (char *) e;
        for (;;) { while (*q == ' ') q++; if (!*q) break; char *nx; ll x = strtoll(q, &nx, 10); if (nx == q) break; a.push_back(x); q = nx; }
        int opc = a[0], N = a[1]; const ll *v = a.data() + 2;
        IntPolynomial *A = new_IntPolynomial(N); TorusPolynomial *B = new_TorusPolynomial(N), *C = new_TorusPolynomial(N), *R = new_TorusPolynomial(N);
        LagrangeHalfCPolynomial *L = new_LagrangeHalfCPolynomial_array(3, N);
        auto geti = [&](IntPolynomial *p, const ll *w) { for (int i = 0; i < N; i++) p->coefs[i] = (int32_t) w[i]; };
        auto gett = [&](TorusPolynomial *p, const ll *w) { for (int i = 0; i < N; i++) p->coefsT[i] = (int32_t) w[i]; };
        for (int i = 0; i < N; i++) R->coefsT[i] = 0x5A5A5A5A;
        switch (opc) {
            case 0: geti(A, v); gett(B, v + N); torusPolynomialMultFFT(R, A, B); break;
            case 1: geti(A, v); gett(B, v + N); gett(R, v + 2 * N); torusPolynomialAddMulRFFT(R, A, B); break;
            case 2: geti(A, v); gett(B, v + N); gett(R, v + 2 * N); torusPolynomialSubMulRFFT(R, A, B); break;
            case 3: gett(B, v); TorusPolynomial_ifft(L, B); TorusPolynomial_fft(R, L); break;
            case 4: { int T = v[0]; LagrangeHalfCPolynomialClear(L + 2);
                for (int t = 0; t < T; t++) { geti(A, v + 1 + (size_t) 2 * t * N); gett(B, v + 1 + (size_t) (2 * t + 1) * N);
                    IntPolynomial_ifft(L, A); TorusPolynomial_ifft(L + 1, B); LagrangeHalfCPolynomialAddMul(L + 2, L, L + 1); }
                TorusPolynomial_fft(R, L + 2); break; }
            case 5: gett(B, v); gett(C, v + N); TorusPolynomial_ifft(L, B); TorusPolynomial_ifft(L + 1, C); LagrangeHalfCPolynomialAddTo(L, L + 1); TorusPolynomial_fft(R, L); break;
            case 6: gett(B, v); TorusPolynomial_ifft(L, B); LagrangeHalfCPolynomialAddTorusConstant(L, (int32_t) v[N]); TorusPolynomial_fft(R, L); break;
            case 7: LagrangeHalfCPolynomialSetTorusConstant(L, (int32_t) v[0]); TorusPolynomial_fft(R, L); break;
            // 16 / 17: as 6 / 7, the 32-bit constant handed over in a 64-bit register whose upper half holds other bits (the ABI leaves them unspecified:
            //          a forwarding wrapper after truncation, a foreign-function binding); the last operand is that upper half
            case 16: { typedef void (*F64)(LagrangeHalfCPolynomial *, long long); F64 volatile f = (F64) (void (*)(LagrangeHalfCPolynomial *, Torus32)) LagrangeHalfCPolynomialAddTorusConstant;
                gett(B, v); TorusPolynomial_ifft(L, B); f(L, (long long) (((unsigned long long) (uint32_t) v[N + 1] << 32) | (uint32_t) (int32_t) v[N])); TorusPolynomial_fft(R, L); break; }
            case 17: { typedef void (*F64)(LagrangeHalfCPolynomial *, long long); F64 volatile f = (F64) (void (*)(LagrangeHalfCPolynomial *, Torus32)) LagrangeHalfCPolynomialSetTorusConstant;
                f(L, (long long) (((unsigned long long) (uint32_t) v[1] << 32) | (uint32_t) (int32_t) v[0])); TorusPolynomial_fft(R, L); break; }
            case 8: LagrangeHalfCPolynomialClear(L); TorusPolynomial_fft(R, L); break;
            case 9: geti(A, v); gett(B, v + N); gett(C, v + 2 * N); IntPolynomial_ifft(L, A); TorusPolynomial_ifft(L + 1, B); TorusPolynomial_ifft(L + 2, C);
                LagrangeHalfCPolynomialSubMul(L + 2, L, L + 1); TorusPolynomial_fft(R, L + 2); break;
            case 10: geti(A, v); gett(B, v + N); IntPolynomial_ifft(L, A); TorusPolynomial_ifft(L + 1, B); LagrangeHalfCPolynomialMul(L + 2, L, L + 1); TorusPolynomial_fft(R, L + 2); break;
            case 11: geti(A, v); IntPolynomial_ifft(L, A); TorusPolynomial_fft(R, L); break;
        }
        std::string out; char buf[32];
        for (int i = 0; i < N; i++) { snprintf(buf, sizeof buf, "%d ", R->coefsT[i]); out += buf; }
        out.push_back('\n'); fwrite(out.data(), 1, out.size(), stdout); fflush(stdout);
        delete_LagrangeHalfCPolynomial_array(3, L); delete_TorusPolynomial(R); delete_TorusPolynomial(C); delete_TorusPolynomial(B); delete_IntPolynomial(A);
    }
    return 0;
}
