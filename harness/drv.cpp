// harness/drv.cpp — implementation-side correspondence driver.
// Reads one case per line "op a1 a2 ..." (decimal integers), calls the real library function and
// prints one result line "r1 r2 ...".  Mirrors ocaml/driver.ml (model side).  Output is flushed per
// line so that a crash leaves every earlier result readable (the orchestrator restarts after it).
#include <cstdio>
#include <cstdlib>
#include <cstring>
#include <cmath>
#include <cinttypes>
#include <string>
#include <vector>
#include <atomic>
#include <thread>
#include <cfenv>
#include <pthread.h>
#include <cerrno>
#include <sstream>
#include <iostream>
#include "tfhe.h"
#include "tfhe_io.h"
#include "polynomials_arithmetic.h"
#include "lwe-functions.h"
#include "tlwe_functions.h"
#include "tgsw_functions.h"

#include "ro_mem.h"
#include "guard_new.h"
typedef long long ll;
typedef std::vector<ll> V;


static void out(const V &r) {
    for (size_t i = 0; i < r.size(); i++) { if (i) putchar(' '); printf("%lld", r[i]); }
    putchar('\n'); fflush(stdout);
}

// a double as exact (num, k): d = num / 2^k, k >= 0, num odd or k = 0
static void dyadic(double d, ll &num, ll &k) {
    if (d == 0) { num = 0; k = 0; return; }
    int e; double m = frexp(d, &e);          // d = m * 2^e, 0.5 <= |m| < 1
    ll mi = (ll) ldexp(m, 53);               // exact 53-bit integer
    ll ee = e - 53;                          // d = mi * 2^ee
    while ((mi & 1) == 0 && ee < 0) { mi >>= 1; ee++; }
    if (ee >= 0) { num = mi << ee; k = 0; } else { num = mi; k = -ee; }
}

// exhaustive sweep of phases [lo,hi) for one M: nearest-integer predicate in 128-bit arithmetic,
// approxPhase == modSwitchTo(modSwitchFrom), returns (number of failures, first failing phase)
static void sweep_msf(const V &a, V &r) {
    int32_t M = (int32_t) a[0]; ll lo = a[1], hi = a[2];
    ll bad = 0, first = 0;
    for (ll u = lo; u < hi; u++) {
        int32_t ph = (int32_t) (uint32_t) u;
        ll k = modSwitchFromTorus32(ph, M);
        bool ok = (k >= 0 && k < M);
        if (ok) {
            __int128 d = (__int128) M * (uint32_t) u - ((__int128) k << 32);
            if (d < 0) d = -d;
            bool near = d <= ((__int128) 1 << 31);
            if (!near && k == 0) { __int128 e = (__int128) M * (uint32_t) u - ((__int128) M << 32); if (e < 0) e = -e; near = e <= ((__int128) 1 << 31); }
            ok = near && approxPhase(ph, M) == modSwitchToTorus32((int32_t) k, M);
        }
        if (!ok) { if (!bad) first = u; bad++; }
    }
    r.push_back(bad); r.push_back(first);
}

// every rounding boundary of one M: phases floor((k + 1/2) * 2^32 / M) + {-2..2} for all k in [0, M): the hardest inputs of the modulus switch
// (the flooring error of the interval width accumulates with k); returns failures, first failing phase
static void bound_msf(const V &a, V &r) {
    int32_t M = (int32_t) a[0]; ll bad = 0, first = 0;
    for (ll k = 0; k < M; k++) {
        ll c = (ll) ((((__int128) (2 * k + 1)) << 31) / M);
        for (ll u = c - 2; u <= c + 2; u++) { V q = { (ll) M, (ll) (uint32_t) u, (ll) (uint32_t) u + 1 }, o; sweep_msf(q, o); if (o[0]) { if (!bad) first = (ll) (uint32_t) u; bad++; } }
    }
    r.push_back(bad); r.push_back(first);
}

// ---- C14 / C11: LWE, polynomial and TLWE operations ----
// arrays handed to the library sit between guard zones so that any access outside [0,n) that
// writes is seen as a changed sentinel ("OOB" result), whatever the allocator does
struct Guarded {
    enum { G = 24 };
    int32_t *base; int n, gb;      // gb: sentinels behind the data; none while arrays are placed at page ends (guard_new.h): the data then ends where the array ends
    Guarded(int n) : n(n), gb(vguard::on ? 0 : G) { base = new int32_t[n + G + gb]; for (int i = 0; i < n + G + gb; i++) base[i] = sentinel(i); }
    ~Guarded() { delete[] base; }
    static int32_t sentinel(int i) { return (int32_t) (0x5EED0000u + 977u * (unsigned) i); }
    int32_t *data() { return base + G; }
    bool intact() const { for (int i = 0; i < G; i++) if (base[i] != sentinel(i) || (i < gb && base[n + G + i] != sentinel(n + G + i))) return false; return true; }
};
static void op_lwephase(const V &a, V &r) {  // n key(n) a(n) b
    int n = a[0];
    LweParams *lp = new_LweParams(n, 0., 0.25);
    LweKey *key = new_LweKey(lp); LweSample *c = new_LweSample(lp);
    for (int i = 0; i < n; i++) { key->key[i] = (int32_t) a[1 + i]; c->a[i] = (int32_t) a[1 + n + i]; }
    c->b = (int32_t) a[1 + 2 * n];
    r.push_back(lwePhase(c, key));
    delete_LweSample(c); delete_LweKey(key); delete_LweParams(lp);
}
static void op_lwelin(const V &a, V &r) {  // opcode n p a1(n) b1 a2(n) b2 ; opcode>=100: sample aliases result
    int opc = a[0], n = a[1]; int32_t p = (int32_t) a[2];
    bool alias = opc >= 100; if (alias) opc -= 100;
    LweParams *lp = new_LweParams(n, 0., 0.25);
    LweSample *c1 = new_LweSample(lp), *c2 = new_LweSample(lp), *res = new_LweSample(lp);
    Guarded g1(n), g2(n), g3(n);
    int32_t *o1 = c1->a, *o2 = c2->a, *o3 = res->a;
    c1->a = g1.data(); c2->a = g2.data(); res->a = g3.data();
    for (int i = 0; i < n; i++) { c1->a[i] = (int32_t) a[3 + i]; c2->a[i] = (int32_t) a[4 + n + i]; res->a[i] = 12345 + i; }
    c1->b = (int32_t) a[3 + n]; c2->b = (int32_t) a[4 + 2 * n]; res->b = 777;
    c1->current_variance = 0.25; c2->current_variance = 0.0625;
    // the variance annotation is bookkeeping, not an operand: half of the calls carry annotations of exactly 0 (hand-filled samples, noiseless
    // encryptions, fresh extractions) - the coefficients computed must not depend on them
    if (n >= 1 && (a[3] & 1)) c2->current_variance = 0.; if (n >= 1 && (a[3] & 2)) c1->current_variance = 0.;
    LweSample *s = alias ? c1 : c2; LweSample *out = c1;
    switch (opc) {
        case 0: lweAddTo(c1, s, lp); break;
        case 1: case 8: lweSubTo(c1, s, lp); break;
        case 2: lweAddMulTo(c1, p, s, lp); break;
        case 3: lweSubMulTo(c1, p, s, lp); break;
        case 4: if (alias) { lweNegate(c1, c1, lp); out = c1; } else { lweNegate(res, c1, lp); out = res; } break;
        case 5: lweClear(res, lp); out = res; break;
        case 6: lweNoiselessTrivial(res, p, lp); out = res; break;
        case 7: if (alias) { lweCopy(c1, c1, lp); out = c1; } else { lweCopy(res, c1, lp); out = res; } break;
    }
    if (!g1.intact() || !g2.intact() || !g3.intact()) { r.push_back(-1); r.push_back(-1); r.push_back(-1); }
    else { for (int i = 0; i < n; i++) r.push_back(out->a[i]); r.push_back(out->b); }
    c1->a = o1; c2->a = o2; res->a = o3;
    delete_LweSample(res); delete_LweSample(c2); delete_LweSample(c1); delete_LweParams(lp);
}
// variance kind opc n p : the variance annotation after the operation, times 16 (inputs carry 1/4 and 1/16)
static void op_variance(const V &a, V &r) {
    int kind = a[0], opc = a[1], n = a[2]; int32_t p = (int32_t) a[3];
    if (kind == 0) {
        LweParams *lp = new_LweParams(n, 0., 0.25); LweSample *c1 = new_LweSample(lp), *c2 = new_LweSample(lp), *res = new_LweSample(lp);
        for (int i = 0; i < n; i++) { c1->a[i] = i * 77 + 1; c2->a[i] = i * 31 - 5; res->a[i] = 9; } c1->b = 5; c2->b = 6; res->b = 7;
        c1->current_variance = 0.25; c2->current_variance = 0.0625; res->current_variance = 123.;
        LweSample *out = c1;
        switch (opc) { case 0: lweAddTo(c1, c2, lp); break; case 1: lweSubTo(c1, c2, lp); break; case 2: lweAddMulTo(c1, p, c2, lp); break; case 3: lweSubMulTo(c1, p, c2, lp); break;
            case 4: lweNegate(res, c1, lp); out = res; break; case 5: lweClear(res, lp); out = res; break; case 6: lweNoiselessTrivial(res, p, lp); out = res; break; case 7: lweCopy(res, c1, lp); out = res; break; }
        r.push_back((ll) llround(out->current_variance * 16.));
        delete_LweSample(res); delete_LweSample(c2); delete_LweSample(c1); delete_LweParams(lp);
    } else {
        TLweParams *tp = new_TLweParams(n, 2, 0., 0.25); TLweSample *c1 = new_TLweSample(tp), *c2 = new_TLweSample(tp), *res = new_TLweSample(tp);
        for (int i = 0; i <= 2; i++) for (int j = 0; j < n; j++) { c1->a[i].coefsT[j] = i + j; c2->a[i].coefsT[j] = i * j + 3; res->a[i].coefsT[j] = 1; }
        c1->current_variance = 0.25; c2->current_variance = 0.0625; res->current_variance = 123.;
        TLweSample *out = c1;
        switch (opc) { case 0: tLweAddTo(c1, c2, tp); break; case 1: tLweSubTo(c1, c2, tp); break; case 2: tLweAddMulTo(c1, p, c2, tp); break; case 3: tLweSubMulTo(c1, p, c2, tp); break;
            case 20: tLweClear(res, tp); out = res; break; case 21: tLweCopy(res, c1, tp); out = res; break; case 22: tLweNoiselessTrivial(res, c2->b, tp); out = res; break;
            case 30: { IntPolynomial *ip = new_IntPolynomial(n); for (int j = 0; j < n; j++) ip->coefs[j] = (j % 3 == 0) ? p : 0; if (n == 1024) tLweAddMulRTo(c1, ip, c2, tp); else c1->current_variance += intPolynomialNormSq2(ip) * c2->current_variance; delete_IntPolynomial(ip); break; } }
        r.push_back((ll) llround(out->current_variance * 16.));
        delete_TLweSample(res); delete_TLweSample(c2); delete_TLweSample(c1); delete_TLweParams(tp);
    }
}
extern "C" void torusPolynomialMultNaive_aux(Torus32* __restrict result, const int32_t* __restrict poly1, const Torus32* __restrict poly2, const int32_t N);
static void op_poly(const V &a, V &r) {  // opcode N p a(N) b(N) [c(N)]
    int opc = a[0], N = a[1]; int32_t p = (int32_t) a[2];
    TorusPolynomial *A = new_TorusPolynomial(N), *B = new_TorusPolynomial(N), *R = new_TorusPolynomial(N);
    IntPolynomial *AI = new_IntPolynomial(N), *RI = new_IntPolynomial(N);
    Guarded ga(N), gb(N), gr(N), gai(N), gri(N);
    int32_t *oa = A->coefsT, *ob = B->coefsT, *orr = R->coefsT, *oai = AI->coefs, *ori = RI->coefs;
    A->coefsT = ga.data(); B->coefsT = gb.data(); R->coefsT = gr.data(); AI->coefs = gai.data(); RI->coefs = gri.data();
    bool hasc = (int) a.size() >= 3 + 3 * N;
    for (int i = 0; i < N; i++) { A->coefsT[i] = AI->coefs[i] = (int32_t) a[3 + i]; B->coefsT[i] = (int32_t) a[3 + N + i];
        R->coefsT[i] = hasc ? (int32_t) a[3 + 2 * N + i] : 424242 + i; RI->coefs[i] = 31337; }
    int32_t *outp = R->coefsT;
    // opcode + 1000: every operand the routine takes as const lives in read-only memory during the call
    const bool ro = opc >= 1000; if (ro) opc -= 1000;
    RoArena arena(3 * (size_t) N * 4 + 4096);
    if (ro) {
        const bool a_out = (opc >= 20 && opc <= 23) || opc == 112 || opc == 113, b_out = opc == 102 || opc == 103, ai_out = opc == 26;
        if (!a_out) A->coefsT = (int32_t *) arena.put(A->coefsT, 4 * (size_t) N);
        if (!b_out) B->coefsT = (int32_t *) arena.put(B->coefsT, 4 * (size_t) N);
        if (!ai_out) AI->coefs = (int32_t *) arena.put(AI->coefs, 4 * (size_t) N);
        arena.seal();
    }
    switch (opc) {
        case 0: torusPolynomialAdd(R, A, B); break;
        case 1: torusPolynomialSub(R, A, B); break;
        case 2: torusPolynomialAddMulZ(R, A, p, B); break;
        case 3: torusPolynomialSubMulZ(R, A, p, B); break;
        // the same two with overlapping operands (the loops read element i before writing element i: any overlap is exact)
        case 102: torusPolynomialAddMulZ(B, A, p, B); outp = B->coefsT; break;      // result is poly2
        case 103: torusPolynomialSubMulZ(B, A, p, B); outp = B->coefsT; break;
        case 112: torusPolynomialAddMulZ(A, A, p, B); outp = A->coefsT; break;      // result is poly1
        case 113: torusPolynomialSubMulZ(A, A, p, B); outp = A->coefsT; break;
        case 122: torusPolynomialAddMulZ(R, A, p, A); break;                         // poly1 is poly2
        case 123: torusPolynomialSubMulZ(R, A, p, A); break;
        case 4: torusPolynomialMulByXai(R, p, A); break;
        case 5: torusPolynomialMulByXaiMinusOne(R, p, A); break;
        case 6: torusPolynomialMultNaive(R, AI, B); break;
        case 7: torusPolynomialMultKaratsuba(R, AI, B); break;
        case 10: torusPolynomialAddMulRKaratsuba(R, AI, B); break;
        case 11: torusPolynomialSubMulRKaratsuba(R, AI, B); break;
        case 20: torusPolynomialAddTo(A, B); outp = A->coefsT; break;
        case 21: torusPolynomialSubTo(A, B); outp = A->coefsT; break;
        case 22: torusPolynomialAddMulZTo(A, p, B); outp = A->coefsT; break;
        case 23: torusPolynomialSubMulZTo(A, p, B); outp = A->coefsT; break;
        case 25: intPolynomialMulByXaiMinusOne(RI, p, AI); outp = RI->coefs; break;
        case 26: intPolynomialAddTo(AI, AI); outp = AI->coefs; break;
    }
    if (ro) arena.unseal();
    if (!(ga.intact() && gb.intact() && gr.intact() && gai.intact() && gri.intact())) { for (int i = 0; i < 4; i++) r.push_back(-1); }
    else for (int i = 0; i < N; i++) r.push_back(outp[i]);
    A->coefsT = oa; B->coefsT = ob; R->coefsT = orr; AI->coefs = oai; RI->coefs = ori;
    delete_IntPolynomial(RI); delete_IntPolynomial(AI); delete_TorusPolynomial(R); delete_TorusPolynomial(B); delete_TorusPolynomial(A);
}
static void op_tlwe(const V &a, V &r) {  // opcode k N p c1((k+1)N) c2((k+1)N)
    int opc = a[0], k = a[1], N = a[2]; int32_t p = (int32_t) a[3];
    TLweParams *tp = new_TLweParams(N, k, 0., 0.25);
    TLweSample *c1 = new_TLweSample(tp), *c2 = new_TLweSample(tp), *res = new_TLweSample(tp);
    for (int i = 0; i <= k; i++) for (int j = 0; j < N; j++) {
        c1->a[i].coefsT[j] = (int32_t) a[4 + i * N + j]; c2->a[i].coefsT[j] = (int32_t) a[4 + (k + 1) * N + i * N + j]; res->a[i].coefsT[j] = 99; }
    // variance annotations: zero (as the constructor leaves them) or not, by the parity of the first coefficients - bookkeeping only
    if (a[4] & 1) c1->current_variance = 0.25; if (a[4] & 2) c2->current_variance = 0.0625; if (a[4] & 4) res->current_variance = 123.;
    TLweSample *out = c1;
    if (opc == 0) tLweAddTo(c1, c2, tp);
    else if (opc == 1) tLweSubTo(c1, c2, tp);
    else if (opc == 2) tLweAddMulTo(c1, p, c2, tp);
    else if (opc == 3) tLweSubMulTo(c1, p, c2, tp);
    else if (opc == 4) { tLweMulByXaiMinusOne(res, p, c1, tp); out = res; }
    else if (opc == 20) { tLweClear(res, tp); out = res; }
    else if (opc == 21) { tLweCopy(res, c1, tp); out = res; }
    else if (opc == 121) { tLweCopy(c1, c1, tp); out = c1; }
    else if (opc == 22) { tLweNoiselessTrivial(res, c2->b, tp); out = res; }
    else if (opc == 23) tLweAddTTo(c1, k, p, tp);
    else if (opc == 24) tLweAddTTo(c1, 0, p, tp);
    else if (opc == 25 || opc == 26) { IntPolynomial *ip = new_IntPolynomial(N); for (int j = 0; j < N; j++) ip->coefs[j] = c2->a[0].coefsT[j];
        tLweAddRTTo(c1, opc == 25 ? k : 0, ip, p, tp); delete_IntPolynomial(ip); }
    if (opc <= 4 || (opc >= 20 && opc <= 26) || opc == 121) { for (int i = 0; i <= k; i++) for (int j = 0; j < N; j++) r.push_back(out->a[i].coefsT[j]); }
    else if (opc == 5) {
        LweSample *e = new_LweSample(&tp->extracted_lweparams);
        Guarded g(k * N); int32_t *o = e->a; e->a = g.data();
        tLweExtractLweSampleIndex(e, c1, p, &tp->extracted_lweparams, tp);
        if (!g.intact()) { r.push_back(-1); r.push_back(-1); r.push_back(-1); }
        else { for (int i = 0; i < k * N; i++) r.push_back(e->a[i]); r.push_back(e->b); }
        e->a = o; delete_LweSample(e);
    } else if (opc == 6 || opc == 16) {     // phase under the key held in the first k polynomials of c2
        TLweKey *key = new_TLweKey(tp);
        for (int i = 0; i < k; i++) for (int j = 0; j < N; j++) key->key[i].coefs[j] = c2->a[i].coefsT[j];
        TorusPolynomial *ph = new_TorusPolynomial(N);
        if (opc == 6) tLwePhase(ph, c1, key);                    // library path (FFT, N = 1024 only)
        else { torusPolynomialCopy(ph, c1->b); for (int i = 0; i < k; i++) torusPolynomialSubMulRKaratsuba(ph, &key->key[i], &c1->a[i]); }
        for (int j = 0; j < N; j++) r.push_back(ph->coefsT[j]);
        delete_TorusPolynomial(ph); delete_TLweKey(key);
    } else if (opc == 7) {
        TLweKey *key = new_TLweKey(tp); LweKey *ek = new_LweKey(&tp->extracted_lweparams);
        for (int i = 0; i < k; i++) for (int j = 0; j < N; j++) key->key[i].coefs[j] = c2->a[i].coefsT[j];
        tLweExtractKey(ek, key);
        for (int i = 0; i < k * N; i++) r.push_back(ek->key[i]);
        delete_LweKey(ek); delete_TLweKey(key);
    }
    delete_TLweSample(res); delete_TLweSample(c2); delete_TLweSample(c1); delete_TLweParams(tp);
}

// ---- C08: key switching ----
static void op_keyswitch(const V &a, V &r) {  // n nout t b rows(n*t*base*(nout+1)) a(n) bv
    int n = a[0], nout = a[1], t = a[2], b = a[3]; int base = 1 << b;
    LweParams *po = new_LweParams(nout, 0., 0.25), *pi = new_LweParams(n, 0., 0.25);
    LweKeySwitchKey *ks = new_LweKeySwitchKey(n, t, b, po);
    size_t pos = 4;
    for (int q = 0; q < n * t * base; q++) { for (int m = 0; m < nout; m++) ks->ks0_raw[q].a[m] = (int32_t) a[pos++]; ks->ks0_raw[q].b = (int32_t) a[pos++]; }
    LweSample *in = new_LweSample(pi), *res = new_LweSample(po);
    for (int i = 0; i < n; i++) in->a[i] = (int32_t) a[pos++];
    in->b = (int32_t) a[pos++];
    Guarded g(nout); int32_t *o = res->a; res->a = g.data();
    lweKeySwitch(res, ks, in);
    if (!g.intact()) { r.push_back(-1); r.push_back(-1); r.push_back(-1); }
    else { for (int m = 0; m < nout; m++) r.push_back(res->a[m]); r.push_back(res->b); }
    res->a = o;
    delete_LweSample(res); delete_LweSample(in); delete_LweKeySwitchKey(ks); delete_LweParams(pi); delete_LweParams(po);
}
// real generated key: the phase identity of the theorem checked exactly with the secret keys.
// returns failures, samples, max |sum of used row noises| , rows with h=0 non-trivial, max |row error|
static void op_ksreal(const V &a, V &r) {  // n nout t b nsamples seed alpha_num alpha_k
    int n = a[0], nout = a[1], t = a[2], b = a[3], ns = a[4]; uint32_t seed = (uint32_t) a[5]; int base = 1 << b;
    double alpha = ldexp((double) a[6], -(int) a[7]);
    tfhe_random_generator_setSeed(&seed, 1);
    LweParams *po = new_LweParams(nout, alpha, 0.25), *pi = new_LweParams(n, alpha, 0.25);
    LweKey *kin = new_LweKey(pi), *kout = new_LweKey(po);
    lweKeyGen(kin); lweKeyGen(kout);
    if (a.size() > 8 && a[8] == 3) for (int i = 0; i < n; i++) if (kin->key[i] && (i & 1)) kin->key[i] = -1;      // 3 = a ternary source key (coefficients -1, 0, 1: the phase is linear in the key)
    // optional 9th argument: 1 = the _old generator; 2 = the key is element 0 of an array of three keys (new_LweKeySwitchKey_array), the other two
    // generated afterwards for other source secrets (keys of one array are independent objects)
    const int arr = (a.size() > 8 && a[8] == 2) ? 3 : 0;
    LweKeySwitchKey *ksa = arr ? new_LweKeySwitchKey_array(arr, n, t, b, po) : 0;
    LweKeySwitchKey *ks = arr ? &ksa[0] : new_LweKeySwitchKey(n, t, b, po);
    if (a.size() > 8 && a[8] == 1) lweCreateKeySwitchKey_old(ks, kin, kout); else lweCreateKeySwitchKey(ks, kin, kout);
    for (int q = 1; q < arr; q++) { LweKey *k2 = new_LweKey(pi); lweKeyGen(k2); lweCreateKeySwitchKey(&ksa[q], k2, kout); delete_LweKey(k2); }
    std::vector<int32_t> e((size_t) n * t * base); ll h0bad = 0, maxrow = 0;
    for (int i = 0; i < n; i++) for (int j = 0; j < t; j++) for (int h = 0; h < base; h++) {
        LweSample *row = &ks->ks[i][j][h];
        int32_t ph = lwePhase(row, kout);
        int32_t x = (int32_t) ((uint32_t) (kin->key[i] * h) << (32 - (j + 1) * b));
        int32_t ee = ph - x; e[((size_t) i * t + j) * base + h] = ee;
        if (h == 0) { bool triv = row->b == 0; for (int m = 0; m < nout; m++) if (row->a[m]) triv = false; if (!triv) h0bad++; }
        else if (llabs((ll) ee) > maxrow) maxrow = llabs((ll) ee);
    }
    LweSample *in = new_LweSample(pi), *res = new_LweSample(po);
    ll bad = 0, maxsum = 0; const uint32_t prec = 1u << (32 - (1 + b * t));
    for (int s = 0; s < ns; s++) {
        for (int i = 0; i < n; i++) in->a[i] = uniformTorus32_distrib(generator);
        in->b = uniformTorus32_distrib(generator);
        if (s == 0) for (int i = 0; i < n; i++) in->a[i] = -1;             // wraps when the offset is added
        if (s == 1) for (int i = 0; i < n; i++) in->a[i] = (int32_t) (prec - 1 + (i & 1));   // rounding tie
        lweKeySwitch(res, ks, in);
        uint32_t expect = 0; ll sume = 0;
        for (int i = 0; i < n; i++) {
            uint32_t y = (uint32_t) in->a[i] + prec;
            uint32_t rounded = (b * t == 32) ? y : (y >> (32 - b * t)) << (32 - b * t);
            expect += (uint32_t) kin->key[i] * ((uint32_t) in->a[i] - rounded);
            for (int j = 0; j < t; j++) { uint32_t d = (y >> (32 - (j + 1) * b)) & (base - 1); if (d) { expect -= (uint32_t) e[((size_t) i * t + j) * base + d]; sume += e[((size_t) i * t + j) * base + d]; } }
        }
        uint32_t got = (uint32_t) lwePhase(res, kout) - (uint32_t) lwePhase(in, kin);
        if (got != expect) bad++;
        if (llabs(sume) > maxsum) maxsum = llabs(sume);
    }
    r.push_back(bad); r.push_back(ns); r.push_back(maxsum); r.push_back(h0bad); r.push_back(maxrow);
    delete_LweSample(res); delete_LweSample(in); if (arr) delete_LweKeySwitchKey_array(arr, ksa); else delete_LweKeySwitchKey(ks); delete_LweKey(kout); delete_LweKey(kin); delete_LweParams(pi); delete_LweParams(po);
}
// exhaustive sweep of one mask coefficient over [lo,hi) on a noiseless key (n = 1, s_in = 1, nout = 2):
// phase_out - phase_in must equal a - round(a), within [-2^(31-tb), 2^(31-tb)); returns failures, first, sum of errors
static void op_kssweep(const V &a, V &r) {  // t b lo hi
    int t = a[0], b = a[1]; ll lo = a[2], hi = a[3]; int base = 1 << b; const int nout = 2;
    LweParams *po = new_LweParams(nout, 0., 0.25), *pi = new_LweParams(1, 0., 0.25);
    LweKeySwitchKey *ks = new_LweKeySwitchKey(1, t, b, po);
    int32_t sout[2] = {1, 0};
    for (int j = 0; j < t; j++) for (int h = 0; h < base; h++) {
        LweSample *row = &ks->ks[0][j][h];
        row->a[0] = (int32_t) (0x9E3779B9u * (uint32_t) (j * base + h + 1)); row->a[1] = (int32_t) (0x7F4A7C15u * (uint32_t) (j + 3 * h + 1));
        row->b = (int32_t) ((uint32_t) h << (32 - (j + 1) * b)) + row->a[0] * sout[0] + row->a[1] * sout[1];
        if (h == 0) { row->a[0] = 0; row->a[1] = 0; row->b = 0; }
    }
    LweSample *in = new_LweSample(pi), *res = new_LweSample(po);
    ll bad = 0, first = 0, sum = 0; const ll half = 1LL << (31 - t * b);
    for (ll u = lo; u < hi; u++) {
        in->a[0] = (int32_t) (uint32_t) u; in->b = 12345;
        lweKeySwitch(res, ks, in);
        int32_t pout = res->b - res->a[0] * sout[0] - res->a[1] * sout[1];
        int32_t pin = in->b - in->a[0];
        int32_t d = pout - pin;           // = a - round(a) mod 2^32
        sum += d;
        if (d < -half || d >= half) { if (!bad) first = u; bad++; }
    }
    r.push_back(bad); r.push_back(first); r.push_back(sum);
    delete_LweSample(res); delete_LweSample(in); delete_LweKeySwitchKey(ks); delete_LweParams(pi); delete_LweParams(po);
}

// ---- C12: gadget decomposition ----
static void op_tgswparams(const V &a, V &r) {
    TLweParams *tp = new_TLweParams(8, 1, 0., 0.25);
    TGswParams *gp = new_TGswParams((int) a[0], (int) a[1], tp);
    r.push_back(gp->Bg); r.push_back(gp->halfBg); r.push_back(gp->maskMod); r.push_back(gp->offset);
    for (int i = 0; i < gp->l; i++) r.push_back(gp->h[i]);
    delete_TGswParams(gp); delete_TLweParams(tp);
}
static void op_decomp(const V &a, V &r) {   // l B N x1..xN
    int l = a[0], B = a[1], N = a[2];
    TLweParams *tp = new_TLweParams(N, 1, 0., 0.25);
    TGswParams *gp = new_TGswParams(l, B, tp);
    TorusPolynomial *in = new_TorusPolynomial(N);
    IntPolynomial *res = new_IntPolynomial_array(l, N);
    for (int j = 0; j < N; j++) in->coefsT[j] = (int32_t) a[3 + j];
    tGswTorus32PolynomialDecompH(res, in, gp);
    for (int p = 0; p < l; p++) for (int j = 0; j < N; j++) r.push_back(res[p].coefs[j]);
    for (int j = 0; j < N; j++) r.push_back(in->coefsT[j]);
    delete_IntPolynomial_array(l, res); delete_TorusPolynomial(in); delete_TGswParams(gp); delete_TLweParams(tp);
}
// decompmt l B N threads iters seed : several threads decompose their own polynomials with ONE shared const TGswParams object (as threads that
//   evaluate gates under one bootstrapping key do); every result is compared with the sequential reference.  prints mismatching calls, calls
static void op_decompmt(const V &a, V &r) {
    int l = a[0], B = a[1], N = a[2], nt = a[3], iters = a[4]; unsigned seed = (unsigned) a[5];
    TLweParams *tp = new_TLweParams(N, 1, 0., 0.25); const TGswParams *gp = new_TGswParams(l, B, tp);
    std::vector<TorusPolynomial *> in(nt); std::vector<IntPolynomial *> ref(nt), out(nt);
    srand(seed);
    for (int t = 0; t < nt; t++) { in[t] = new_TorusPolynomial(N); ref[t] = new_IntPolynomial_array(l, N); out[t] = new_IntPolynomial_array(l, N);
        for (int j = 0; j < N; j++) in[t]->coefsT[j] = (int32_t) (((unsigned) rand() << 16) ^ (unsigned) rand());
        tGswTorus32PolynomialDecompH(ref[t], in[t], gp); }
    std::atomic<long> bad(0), calls(0);
    std::vector<std::thread> th;
    for (int t = 0; t < nt; t++) th.emplace_back([&, t]() {
        for (int it = 0; it < iters; it++) { tGswTorus32PolynomialDecompH(out[t], in[t], gp); calls++;
            bool same = true; for (int p = 0; p < l && same; p++) for (int j = 0; j < N; j++) if (out[t][p].coefs[j] != ref[t][p].coefs[j]) { same = false; break; }
            if (!same) bad++; }
        // operands that live far apart: the input was allocated by the main thread (brk heap), these results by this thread (its own malloc
        // arena, a mapping tens of terabytes away) and in a mapping placed by the kernel; the digits written must not depend on the distance
        { IntPolynomial *mine = new_IntPolynomial_array(l, N); tGswTorus32PolynomialDecompH(mine, in[t], gp); calls++;
          bool same = true; for (int p = 0; p < l && same; p++) for (int j = 0; j < N; j++) if (mine[p].coefs[j] != ref[t][p].coefs[j]) { same = false; break; }
          if (!same) bad++;
          TorusPolynomial *tin = new_TorusPolynomial(N); for (int j = 0; j < N; j++) tin->coefsT[j] = in[t]->coefsT[j];
          tGswTorus32PolynomialDecompH(out[t], tin, gp); calls++;      // input in the thread arena, result in the main heap
          same = true; for (int p = 0; p < l && same; p++) for (int j = 0; j < N; j++) if (out[t][p].coefs[j] != ref[t][p].coefs[j]) { same = false; break; }
          if (!same) bad++;
          delete_TorusPolynomial(tin); delete_IntPolynomial_array(l, mine); } });
    for (auto &x : th) x.join();
    r.push_back(bad); r.push_back(calls);
    for (int t = 0; t < nt; t++) { delete_IntPolynomial_array(l, out[t]); delete_IntPolynomial_array(l, ref[t]); delete_TorusPolynomial(in[t]); }
    delete_TGswParams((TGswParams *) gp); delete_TLweParams(tp);
}
static void op_tlwedecomp(const V &a, V &r) {   // l B k N coefs((k+1)*N)
    int l = a[0], B = a[1], k = a[2], N = a[3];
    TLweParams *tp = new_TLweParams(N, k, 0., 0.25);
    TGswParams *gp = new_TGswParams(l, B, tp);
    TLweSample *in = new_TLweSample(tp);
    IntPolynomial *res = new_IntPolynomial_array((k + 1) * l, N);
    for (int i = 0; i <= k; i++) for (int j = 0; j < N; j++) in->a[i].coefsT[j] = (int32_t) a[4 + i * N + j];
    tGswTLweDecompH(res, in, gp);
    for (int p = 0; p < (k + 1) * l; p++) for (int j = 0; j < N; j++) r.push_back(res[p].coefs[j]);
    for (int i = 0; i <= k; i++) for (int j = 0; j < N; j++) r.push_back(in->a[i].coefsT[j]);
    delete_IntPolynomial_array((k + 1) * l, res); delete_TLweSample(in); delete_TGswParams(gp); delete_TLweParams(tp);
}
// exhaustive sweep over x in [lo,hi): range, recomposition error in [0,2^(32-lB)), input restored.
// returns (failures, first failing x)
static void op_decompsweep(const V &a, V &r) {  // l B lo hi
    int l = a[0], B = a[1]; ll lo = a[2], hi = a[3];
    const int N = 1024;
    TLweParams *tp = new_TLweParams(N, 1, 0., 0.25);
    TGswParams *gp = new_TGswParams(l, B, tp);
    TorusPolynomial *in = new_TorusPolynomial(N);
    IntPolynomial *res = new_IntPolynomial_array(l, N);
    ll bad = 0, first = 0; const ll half = 1LL << (B - 1); const ll errmax = 1LL << (32 - l * B);
    for (ll x0 = lo; x0 < hi; x0 += N) {
        for (int j = 0; j < N; j++) in->coefsT[j] = (int32_t) (uint32_t) (x0 + j);
        tGswTorus32PolynomialDecompH(res, in, gp);
        for (int j = 0; j < N && x0 + j < hi; j++) {
            bool ok = in->coefsT[j] == (int32_t) (uint32_t) (x0 + j);
            ll rec = 0;
            for (int p = 0; p < l; p++) { ll d = res[p].coefs[j]; if (d < -half || d >= half) ok = false; rec += d * (1LL << (32 - (p + 1) * B)); }
            ll err = (ll) ((uint32_t) (x0 + j) - (uint32_t) rec);   // x - recomposition mod 2^32
            if (err < 0 || err >= errmax) ok = false;
            if (!ok) { if (!bad) first = x0 + j; bad++; }
        }
    }
    r.push_back(bad); r.push_back(first);
    delete_IntPolynomial_array(l, res); delete_TorusPolynomial(in); delete_TGswParams(gp); delete_TLweParams(tp);
}

static int g_amb_errno = 0, g_amb_flags = 0;
// op "stack K": the library calls of the following poly / lwelin / tlwe / keyswitch / decomp lines run on a thread whose stack has K KiB (plus a guard
// area): worker threads of pools, fibres and embedded ports have small stacks; a routine that moves its scratch onto the stack dies there
static int g_stack_kib = 0;
struct SmallJob { void (*fn)(const V &, V &); const V *a; V *r; };
static void *small_tramp(void *p) { SmallJob *j = (SmallJob *) p; j->fn(*j->a, *j->r); return 0; }
static void run_small(void (*fn)(const V &, V &), const V &a, V &r) {
    if (!g_stack_kib) { fn(a, r); return; }
    pthread_attr_t at; pthread_attr_init(&at); pthread_attr_setstacksize(&at, (size_t) g_stack_kib * 1024); pthread_attr_setguardsize(&at, 65536);
    SmallJob j = { fn, &a, &r }; pthread_t th; if (pthread_create(&th, &at, small_tramp, &j)) abort(); pthread_join(th, 0); pthread_attr_destroy(&at);
}
int main(int argc, char **argv) {
    std::string line;
    while (std::getline(std::cin, line)) {
        std::istringstream is(line);
        std::string op; if (!(is >> op)) { putchar('\n'); fflush(stdout); continue; }
        V a; ll x; while (is >> x) a.push_back(x);
        V r;
        if (g_amb_flags) feraiseexcept(FE_ALL_EXCEPT);
        if (g_amb_errno) errno = g_amb_errno;
        if (op == "stack") { g_stack_kib = a.empty() ? 0 : (int) a[0]; r.push_back(1); }
        else if (op == "guard") { vguard::on = a.empty() ? 0 : (int) a[0]; r.push_back(1); r.push_back(vguard::served); }   // every array allocated from here on ends at an inaccessible page (guard_new.h)
        else if (op == "ambient") {   // sticky per-thread state left behind by unrelated code, re-established before every following call: errno value (0 = leave alone), 1 = all floating-point exception flags raised
            g_amb_errno = a.size() > 0 ? (int) a[0] : 0; g_amb_flags = a.size() > 1 ? (int) a[1] : 0;
            if (!g_amb_flags) feclearexcept(FE_ALL_EXCEPT); if (!g_amb_errno) errno = 0; r.push_back(1); }
        else if (op == "fenv") {   // rounding direction of the floating-point environment for everything that follows: 0 nearest, 1 upward, 2 downward, 3 toward zero
            static const int modes[4] = { FE_TONEAREST, FE_UPWARD, FE_DOWNWARD, FE_TOWARDZERO }; fesetround(modes[a.empty() ? 0 : (a[0] & 3)]); r.push_back(fegetround() == modes[a.empty() ? 0 : (a[0] & 3)]); }
        else if (op == "msf") r.push_back(modSwitchFromTorus32((int32_t) a[0], (int32_t) a[1]));
        else if (op == "aph") r.push_back(approxPhase((int32_t) a[0], (int32_t) a[1]));
        else if (op == "mst") r.push_back(modSwitchToTorus32((int32_t) a[0], (int32_t) a[1]));
        else if (op == "dtot") r.push_back(dtot32(ldexp((double) a[0], -(int) a[1])));
        else if (op == "t32tod") { ll n, k; dyadic(t32tod((int32_t) a[0]), n, k);
            // normalise to denominator 2^32 as the model prints it
            if (k <= 32) { n <<= (32 - k); k = 32; } r.push_back(n); r.push_back(k); }
        else if (op == "tdt") r.push_back(dtot32(t32tod((int32_t) a[0])));
        else if (op == "dtotp") { double d = ldexp((double) a[0], -(int) a[1]);
            r.push_back(dtot32(d)); r.push_back(dtot32(d + (double) a[2])); }
        else if (op == "msfsweep") sweep_msf(a, r);
        else if (op == "msfbound") bound_msf(a, r);
        else if (op == "lwephase") op_lwephase(a, r);
        else if (op == "lwelin") run_small(op_lwelin, a, r);
        else if (op == "poly") run_small(op_poly, a, r);
        else if (op == "variance") op_variance(a, r);
        else if (op == "tlwe") run_small(op_tlwe, a, r);
        else if (op == "keyswitch") run_small(op_keyswitch, a, r);
        else if (op == "ksreal") op_ksreal(a, r);
        else if (op == "kssweep") op_kssweep(a, r);
        else if (op == "decomp") run_small(op_decomp, a, r);
        else if (op == "tlwedecomp") run_small(op_tlwedecomp, a, r);
        else if (op == "decompmt") op_decompmt(a, r);
        else if (op == "tgswparams") op_tgswparams(a, r);
        else if (op == "decompsweep") op_decompsweep(a, r);
        else { puts("NOOP"); fflush(stdout); continue; }
        out(r);
    }
    return 0;
}
