// harness/drv.cpp — implementation-side correspondence driver.
// Reads one case per line "op a1 a2 ..." (decimal integers), calls the real library function and
// prints one result line "r1 r2 ...".  Mirrors ocaml/driver.ml (model side).  Output is flushed per
// line so that a crash leaves every earlier result readable (the orchestrator restarts after it).
#include <cstdio>
#include <cstdlib>
#include <cstring>
#include <cmath>
#include <cinttypes>
#include <string>
#include <vector>
#include <sstream>
#include <iostream>
#include "tfhe.h"
#include "tfhe_io.h"
#include "polynomials_arithmetic.h"
#include "lwe-functions.h"
#include "tlwe_functions.h"
#include "tgsw_functions.h"

typedef long long ll;
typedef std::vector<ll> V;


static void out(const V &r) {
    for (size_t i = 0; i < r.size(); i++) { if (i) putchar(' '); printf("%lld", r[i]); }
    putchar('\n'); fflush(stdout);
}

// a double as exact (num, k): d = num / 2^k, k >= 0, num odd or k = 0
static void dyadic(double d, ll &num, ll &k) {
    if (d == 0) { num = 0; k = 0; return; }
    int e; double m = frexp(d, &e);          // d = m * 2^e, 0.5 <= |m| < 1
    ll mi = (ll) ldexp(m, 53);               // exact 53-bit integer
    ll ee = e - 53;                          // d = mi * 2^ee
    while ((mi & 1) == 0 && ee < 0) { mi >>= 1; ee++; }
    if (ee >= 0) { num = mi << ee; k = 0; } else { num = mi; k = -ee; }
}

// exhaustive sweep of phases [lo,hi) for one M: nearest-integer predicate in 128-bit arithmetic,
// approxPhase == modSwitchTo(modSwitchFrom), returns (number of failures, first failing phase)
static void sweep_msf(const V &a, V &r) {
    int32_t M = (int32_t) a[0]; ll lo = a[1], hi = a[2];
    ll bad = 0, first = 0;
    for (ll u = lo; u < hi; u++) {
        int32_t ph = (int32_t) (uint32_t) u;
        ll k = modSwitchFromTorus32(ph, M);
        bool ok = (k >= 0 && k < M);
        if (ok) {
            __int128 d = (__int128) M * (uint32_t) u - ((__int128) k << 32);
            if (d < 0) d = -d;
            bool near = d <= ((__int128) 1 << 31);
            if (!near && k == 0) { __int128 e = (__int128) M * (uint32_t) u - ((__int128) M << 32); if (e < 0) e = -e; near = e <= ((__int128) 1 << 31); }
            ok = near && approxPhase(ph, M) == modSwitchToTorus32((int32_t) k, M);
        }
        if (!ok) { if (!bad) first = u; bad++; }
    }
    r.push_back(bad); r.push_back(first);
}

int main(int argc, char **argv) {
    std::string line;
    while (std::getline(std::cin, line)) {
        std::istringstream is(line);
        std::string op; if (!(is >> op)) { putchar('\n'); fflush(stdout); continue; }
        V a; ll x; while (is >> x) a.push_back(x);
        V r;
        if (op == "msf") r.push_back(modSwitchFromTorus32((int32_t) a[0], (int32_t) a[1]));
        else if (op == "aph") r.push_back(approxPhase((int32_t) a[0], (int32_t) a[1]));
        else if (op == "mst") r.push_back(modSwitchToTorus32((int32_t) a[0], (int32_t) a[1]));
        else if (op == "dtot") r.push_back(dtot32(ldexp((double) a[0], -(int) a[1])));
        else if (op == "t32tod") { ll n, k; dyadic(t32tod((int32_t) a[0]), n, k);
            // normalise to denominator 2^32 as the model prints it
            if (k <= 32) { n <<= (32 - k); k = 32; } r.push_back(n); r.push_back(k); }
        else if (op == "tdt") r.push_back(dtot32(t32tod((int32_t) a[0])));
        else if (op == "dtotp") { double d = ldexp((double) a[0], -(int) a[1]);
            r.push_back(dtot32(d)); r.push_back(dtot32(d + (double) a[2])); }
        else if (op == "msfsweep") sweep_msf(a, r);
        else { puts("NOOP"); fflush(stdout); continue; }
        out(r);
    }
    return 0;
}
