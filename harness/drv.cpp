// harness/drv.cpp — implementation-side correspondence driver.
// Reads one case per line "op a1 a2 ..." (decimal integers), calls the real library function and
// prints one result line "r1 r2 ...".  Mirrors ocaml/driver.ml (model side).  Output is flushed per
// line so that a crash leaves every earlier result readable (the orchestrator restarts after it).
#include <cstdio>
#include <cstdlib>
#include <cstring>
#include <cmath>
#include <cinttypes>
#include <string>
#include <vector>
#include <sstream>
#include <iostream>
#include "tfhe.h"
#include "tfhe_io.h"
#include "polynomials_arithmetic.h"
#include "lwe-functions.h"
#include "tlwe_functions.h"
#include "tgsw_functions.h"

typedef long long ll;
typedef std::vector<ll> V;


static void out(const V &r) {
    for (size_t i = 0; i < r.size(); i++) { if (i) putchar(' '); printf("%lld", r[i]); }
    putchar('\n'); fflush(stdout);
}

// a double as exact (num, k): d = num / 2^k, k >= 0, num odd or k = 0
static void dyadic(double d, ll &num, ll &k) {
    if (d == 0) { num = 0; k = 0; return; }
    int e; double m = frexp(d, &e);          // d = m * 2^e, 0.5 <= |m| < 1
    ll mi = (ll) ldexp(m, 53);               // exact 53-bit integer
    ll ee = e - 53;                          // d = mi * 2^ee
    while ((mi & 1) == 0 && ee < 0) { mi >>= 1; ee++; }
    if (ee >= 0) { num = mi << ee; k = 0; } else { num = mi; k = -ee; }
}

// exhaustive sweep of phases [lo,hi) for one M: nearest-integer predicate in 128-bit arithmetic,
// approxPhase == modSwitchTo(modSwitchFrom), returns (number of failures, first failing phase)
static void sweep_msf(const V &a, V &r) {
    int32_t M = (int32_t) a[0]; ll lo = a[1], hi = a[2];
    ll bad = 0, first = 0;
    for (ll u = lo; u < hi; u++) {
        int32_t ph = (int32_t) (uint32_t) u;
        ll k = modSwitchFromTorus32(ph, M);
        bool ok = (k >= 0 && k < M);
        if (ok) {
            __int128 d = (__int128) M * (uint32_t) u - ((__int128) k << 32);
            if (d < 0) d = -d;
            bool near = d <= ((__int128) 1 << 31);
            if (!near && k == 0) { __int128 e = (__int128) M * (uint32_t) u - ((__int128) M << 32); if (e < 0) e = -e; near = e <= ((__int128) 1 << 31); }
            ok = near && approxPhase(ph, M) == modSwitchToTorus32((int32_t) k, M);
        }
        if (!ok) { if (!bad) first = u; bad++; }
    }
    r.push_back(bad); r.push_back(first);
}

// ---- C12: gadget decomposition ----
static void op_tgswparams(const V &a, V &r) {
    TLweParams *tp = new_TLweParams(8, 1, 0., 0.25);
    TGswParams *gp = new_TGswParams((int) a[0], (int) a[1], tp);
    r.push_back(gp->Bg); r.push_back(gp->halfBg); r.push_back(gp->maskMod); r.push_back(gp->offset);
    for (int i = 0; i < gp->l; i++) r.push_back(gp->h[i]);
    delete_TGswParams(gp); delete_TLweParams(tp);
}
static void op_decomp(const V &a, V &r) {   // l B N x1..xN
    int l = a[0], B = a[1], N = a[2];
    TLweParams *tp = new_TLweParams(N, 1, 0., 0.25);
    TGswParams *gp = new_TGswParams(l, B, tp);
    TorusPolynomial *in = new_TorusPolynomial(N);
    IntPolynomial *res = new_IntPolynomial_array(l, N);
    for (int j = 0; j < N; j++) in->coefsT[j] = (int32_t) a[3 + j];
    tGswTorus32PolynomialDecompH(res, in, gp);
    for (int p = 0; p < l; p++) for (int j = 0; j < N; j++) r.push_back(res[p].coefs[j]);
    for (int j = 0; j < N; j++) r.push_back(in->coefsT[j]);
    delete_IntPolynomial_array(l, res); delete_TorusPolynomial(in); delete_TGswParams(gp); delete_TLweParams(tp);
}
static void op_tlwedecomp(const V &a, V &r) {   // l B k N coefs((k+1)*N)
    int l = a[0], B = a[1], k = a[2], N = a[3];
    TLweParams *tp = new_TLweParams(N, k, 0., 0.25);
    TGswParams *gp = new_TGswParams(l, B, tp);
    TLweSample *in = new_TLweSample(tp);
    IntPolynomial *res = new_IntPolynomial_array((k + 1) * l, N);
    for (int i = 0; i <= k; i++) for (int j = 0; j < N; j++) in->a[i].coefsT[j] = (int32_t) a[4 + i * N + j];
    tGswTLweDecompH(res, in, gp);
    for (int p = 0; p < (k + 1) * l; p++) for (int j = 0; j < N; j++) r.push_back(res[p].coefs[j]);
    for (int i = 0; i <= k; i++) for (int j = 0; j < N; j++) r.push_back(in->a[i].coefsT[j]);
    delete_IntPolynomial_array((k + 1) * l, res); delete_TLweSample(in); delete_TGswParams(gp); delete_TLweParams(tp);
}
// exhaustive sweep over x in [lo,hi): range, recomposition error in [0,2^(32-lB)), input restored.
// returns (failures, first failing x)
static void op_decompsweep(const V &a, V &r) {  // l B lo hi
    int l = a[0], B = a[1]; ll lo = a[2], hi = a[3];
    const int N = 1024;
    TLweParams *tp = new_TLweParams(N, 1, 0., 0.25);
    TGswParams *gp = new_TGswParams(l, B, tp);
    TorusPolynomial *in = new_TorusPolynomial(N);
    IntPolynomial *res = new_IntPolynomial_array(l, N);
    ll bad = 0, first = 0; const ll half = 1LL << (B - 1); const ll errmax = 1LL << (32 - l * B);
    for (ll x0 = lo; x0 < hi; x0 += N) {
        for (int j = 0; j < N; j++) in->coefsT[j] = (int32_t) (uint32_t) (x0 + j);
        tGswTorus32PolynomialDecompH(res, in, gp);
        for (int j = 0; j < N && x0 + j < hi; j++) {
            bool ok = in->coefsT[j] == (int32_t) (uint32_t) (x0 + j);
            ll rec = 0;
            for (int p = 0; p < l; p++) { ll d = res[p].coefs[j]; if (d < -half || d >= half) ok = false; rec += d * (1LL << (32 - (p + 1) * B)); }
            ll err = (ll) ((uint32_t) (x0 + j) - (uint32_t) rec);   // x - recomposition mod 2^32
            if (err < 0 || err >= errmax) ok = false;
            if (!ok) { if (!bad) first = x0 + j; bad++; }
        }
    }
    r.push_back(bad); r.push_back(first);
    delete_IntPolynomial_array(l, res); delete_TorusPolynomial(in); delete_TGswParams(gp); delete_TLweParams(tp);
}

int main(int argc, char **argv) {
    std::string line;
    while (std::getline(std::cin, line)) {
        std::istringstream is(line);
        std::string op; if (!(is >> op)) { putchar('\n'); fflush(stdout); continue; }
        V a; ll x; while (is >> x) a.push_back(x);
        V r;
        if (op == "msf") r.push_back(modSwitchFromTorus32((int32_t) a[0], (int32_t) a[1]));
        else if (op == "aph") r.push_back(approxPhase((int32_t) a[0], (int32_t) a[1]));
        else if (op == "mst") r.push_back(modSwitchToTorus32((int32_t) a[0], (int32_t) a[1]));
        else if (op == "dtot") r.push_back(dtot32(ldexp((double) a[0], -(int) a[1])));
        else if (op == "t32tod") { ll n, k; dyadic(t32tod((int32_t) a[0]), n, k);
            // normalise to denominator 2^32 as the model prints it
            if (k <= 32) { n <<= (32 - k); k = 32; } r.push_back(n); r.push_back(k); }
        else if (op == "tdt") r.push_back(dtot32(t32tod((int32_t) a[0])));
        else if (op == "dtotp") { double d = ldexp((double) a[0], -(int) a[1]);
            r.push_back(dtot32(d)); r.push_back(dtot32(d + (double) a[2])); }
        else if (op == "msfsweep") sweep_msf(a, r);
        else if (op == "decomp") op_decomp(a, r);
        else if (op == "tlwedecomp") op_tlwedecomp(a, r);
        else if (op == "tgswparams") op_tgswparams(a, r);
        else if (op == "decompsweep") op_decompsweep(a, r);
        else { puts("NOOP"); fflush(stdout); continue; }
        out(r);
    }
    return 0;
}
