// harness/ro_mem.h — operands placed in read-only memory: a function that writes to a const operand, even transiently (negate-and-restore,
// scratch use of the caller's buffer), dies with SIGSEGV instead of going unnoticed when the operand looks unchanged afterwards.
#pragma once
#include <sys/mman.h>
#include <cstring>
#include <cstdlib>
struct RoArena {
    char *base; size_t size, used;
    explicit RoArena(size_t bytes) : used(0) {
        size = (bytes + 3 * 4096) & ~(size_t) 4095;
        base = (char *) mmap(0, size, PROT_READ | PROT_WRITE, MAP_PRIVATE | MAP_ANONYMOUS, -1, 0);
        if (base == (char *) MAP_FAILED) abort();
    }
    void *put(const void *src, size_t n) {           // 64-byte aligned copy
        used = (used + 63) & ~(size_t) 63; if (used + n > size) abort();
        void *p = base + used; memcpy(p, src, n); used += n; return p;
    }
    void seal() { if (mprotect(base, size, PROT_READ)) abort(); }
    void unseal() { if (mprotect(base, size, PROT_READ | PROT_WRITE)) abort(); }
    ~RoArena() { munmap(base, size); }
    RoArena(const RoArena &) = delete; void operator=(const RoArena &) = delete;
};
