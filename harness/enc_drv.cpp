// harness/enc_drv.cpp — key generation / encryption / decryption with the draws made explicit (C03, C07).
// Line:  enc <opc> <seed> <skip> <alpha_units> <alpha2_units> operands...      (noise levels in units of 2^-40)
// The library generator is seeded, advanced by <skip> words (history), cloned; the library function is called;
// the clone is then driven through the draw sequence the model expects (same distribution calls, in order) and must end
// in the same state as the library generator (operator==): the library consumed exactly those draws.
// Output:  <generator_states_equal> <L> <L library output numbers> <nd> <draw stream: 0 w | 1 b | 2 num k>
#include <cstdio>
#include <cstdlib>
#include <cstring>
#include <cmath>
#include <string>
#include <vector>
#include <thread>
#include <random>
#include <iostream>
#include "tfhe.h"
#include "tfhe_io.h"
#include "lwe-functions.h"
#include "tlwe_functions.h"
#include "tgsw_functions.h"
#include "numeric_functions.h"
#include "polynomials_arithmetic.h"
#include "guard_new.h"

typedef long long ll;
typedef std::vector<ll> V;
extern std::default_random_engine generator;
extern std::uniform_int_distribution<Torus32> uniformTorus32_distrib;

static void dyadic(double d, ll &num, ll &k) {
    if (d == 0) { num = 0; k = 0; return; }
    int e; double m = frexp(d, &e); ll mi = (ll) ldexp(m, 53); ll ee = e - 53;
    while ((mi & 1) == 0 && ee < 0) { mi >>= 1; ee++; }
    if (ee >= 0) { num = mi << ee; k = 0; } else { num = mi; k = -ee; }
}
struct Replay {
    std::default_random_engine g; V draws; ll count;
    Replay(const std::default_random_engine &src) : g(src), count(0) {}
    void U(int n) { for (int i = 0; i < n; i++) { draws.push_back(0); draws.push_back(uniformTorus32_distrib(g)); count++; } }
    void B(int n) { std::uniform_int_distribution<int32_t> d(0, 1); for (int i = 0; i < n; i++) { draws.push_back(1); draws.push_back(d(g)); count++; } }
    void G(int n, double sigma) { for (int i = 0; i < n; i++) { std::normal_distribution<double> d(0., sigma); double x = d(g); ll a, k; dyadic(x, a, k); draws.push_back(2); draws.push_back(a); draws.push_back(k); count++; } }
};
static void emit(bool same, const V &res, const Replay &rp) {
    std::string s; char buf[32];
    auto put = [&](ll x) { snprintf(buf, sizeof buf, "%lld ", x); s += buf; };
    put(same ? 1 : 0); put((ll) res.size()); for (ll x : res) put(x); put(rp.count); for (ll x : rp.draws) put(x);
    s.push_back('\n'); fwrite(s.data(), 1, s.size(), stdout); fflush(stdout);
}
static void dump_lwe(const LweSample *s, int n, V &r) { for (int i = 0; i < n; i++) r.push_back(s->a[i]); r.push_back(s->b); }
static void dump_tlwe(const TLweSample *s, int k, int N, V &r) { for (int i = 0; i <= k; i++) for (int j = 0; j < N; j++) r.push_back(s->a[i].coefsT[j]); }

// the parameter object of the LWE operations: its announced noise range is independent of the alpha passed to the encryption
//   sel 0: [alpha, 1/4]   1: [4 alpha, 1/4] (request below the announced minimum)   2: [0, alpha/4] (request above the announced maximum)
//   3: the in/out parameters of the default 128-bit gate set [2^-15, 0.012467]   4: [64 alpha, 1/4]
static LweParams *mk_lwe_params(int n, double alpha, ll sel) {
    switch (sel) { case 1: return new_LweParams(n, 4 * alpha, 0.25); case 2: return new_LweParams(n, 0., alpha / 4); case 3: return new_LweParams(n, ldexp(1., -15), 0.012467);
                   case 4: return new_LweParams(n, 64 * alpha, 0.25); default: return new_LweParams(n, alpha, 0.25); }
}
int main() {
    std::string line;
    while (std::getline(std::cin, line)) {
        const char *s = line.c_str(); while (*s == ' ') s++;
        const char *e = s; while (*e && *e != ' ') e++;
        std::string op(s, e - s);
        if (op == "guard") { vguard::on = atoi(e); printf("1 %ld\n", vguard::served); fflush(stdout); continue; }   // arrays end at an inaccessible page from here on (guard_new.h)
        if (op != "enc") { puts(op.empty() ? "" : "NOOP"); fflush(stdout); continue; }
        V a; char *q = (char *) e;
        for (;;) { while (*q == ' ') q++; if (!*q) break; char *nx; ll x = strtoll(q, &nx, 10); if (nx == q) break; a.push_back(x); q = nx; }
        int opc = a[0]; uint32_t seed = (uint32_t) a[1]; int skip = a[2]; double alpha = ldexp((double) a[3], -40), alpha2 = ldexp((double) a[4], -40);
        const ll *v = a.data() + 5;
        tfhe_random_generator_setSeed(&seed, 1);
        for (int i = 0; i < skip; i++) uniformTorus32_distrib(generator);
        Replay rp(generator);
        V res;
        if (opc == 0) {
            int n = v[0]; LweParams *lp = new_LweParams(n, alpha, 0.25); LweKey *k = new_LweKey(lp);
            lweKeyGen(k); for (int i = 0; i < n; i++) res.push_back(k->key[i]);
            rp.B(n); delete_LweKey(k); delete_LweParams(lp);
        } else if (opc == 1 || opc == 2) {
            int n = v[0]; LweParams *lp = mk_lwe_params(n, alpha, a[4]); LweKey *k = new_LweKey(lp); LweSample *c = new_LweSample(lp);
            for (int i = 0; i < n; i++) k->key[i] = (int32_t) v[1 + i];
            for (int i = 0; i < n; i++) c->a[i] = 0x5A5A5A5A; c->b = 0x12345678; c->current_variance = 7.;     // a ciphertext object that was used before
            if (opc == 1) lweSymEncrypt(c, (int32_t) v[1 + n], alpha, k);
            else {   // through the gate API: a key-set shell around the LWE key
                TLweParams *tp = new_TLweParams(1024, 1, 0., 0.25); TGswParams *gp = new_TGswParams(3, 7, tp);
                TFheGateBootstrappingParameterSet *ps = new TFheGateBootstrappingParameterSet(8, 2, lp, gp);
                TFheGateBootstrappingSecretKeySet *sk = new TFheGateBootstrappingSecretKeySet(ps, 0, 0, k, 0);
                bootsSymEncrypt(c, (int32_t) v[1 + n], sk);
                res.clear();
                delete sk; delete ps; delete_TGswParams(gp); delete_TLweParams(tp);
            }
            dump_lwe(c, n, res);
            rp.G(1, alpha); rp.U(n);
            delete_LweSample(c); delete_LweKey(k); delete_LweParams(lp);
        } else if (opc == 14) {   // lweSymEncryptWithExternalNoise: n key message noise_num noise_exp
            int n = v[0]; LweParams *lp = mk_lwe_params(n, alpha, a[4]); LweKey *k = new_LweKey(lp); LweSample *c = new_LweSample(lp);
            for (int i = 0; i < n; i++) k->key[i] = (int32_t) v[1 + i];
            for (int i = 0; i < n; i++) c->a[i] = 0x5A5A5A5A; c->b = 0x12345678; c->current_variance = 7.;
            lweSymEncryptWithExternalNoise(c, (int32_t) v[1 + n], ldexp((double) v[2 + n], -(int) v[3 + n]), alpha, k);
            dump_lwe(c, n, res); rp.U(n);
            delete_LweSample(c); delete_LweKey(k); delete_LweParams(lp);
        } else if (opc == 3) {
            int n = v[0]; LweParams *lp = new_LweParams(n, alpha, 0.25); LweKey *k = new_LweKey(lp); LweSample *c = new_LweSample(lp);
            for (int i = 0; i < n; i++) { k->key[i] = (int32_t) v[1 + i]; c->a[i] = (int32_t) v[1 + n + i]; } c->b = (int32_t) v[1 + 2 * n];
            res.push_back(lweSymDecrypt(c, k, (int32_t) v[2 + 2 * n])); res.push_back(lwePhase(c, k));
            delete_LweSample(c); delete_LweKey(k); delete_LweParams(lp);
        } else if (opc >= 4 && opc <= 11) {
            int k = v[0], N = v[1]; int l = 1, B = 1; const ll *w = v + 2;
            if (opc >= 10) { l = v[2]; B = v[3]; w = v + 4; }
            TLweParams *tp = new_TLweParams(N, k, alpha, 0.25); TGswParams *gp = new_TGswParams(l, B, tp);
            TGswKey *gk = new_TGswKey(gp); TLweKey *tk = &gk->tlwe_key;
            if (opc == 4) { tLweKeyGen(tk); for (int i = 0; i < k; i++) for (int j = 0; j < N; j++) res.push_back(tk->key[i].coefs[j]); rp.B(k * N); }
            else {
                for (int i = 0; i < k; i++) for (int j = 0; j < N; j++) tk->key[i].coefs[j] = (int32_t) w[(size_t) i * N + j];
                w += (size_t) k * N;
                TLweSample *c = new_TLweSample(tp);
                for (int i = 0; i <= k; i++) for (int j = 0; j < N; j++) c->a[i].coefsT[j] = 0x5A5A5A5A + j; c->current_variance = 7.;     // used before
                if (opc == 5) { tLweSymEncryptZero(c, alpha, tk); dump_tlwe(c, k, N, res); rp.G(N, alpha); for (int i = 0; i < k; i++) rp.U(N); }
                else if (opc == 6) { TorusPolynomial *m = new_TorusPolynomial(N); for (int j = 0; j < N; j++) m->coefsT[j] = (int32_t) w[j];
                    tLweSymEncrypt(c, m, alpha, tk); dump_tlwe(c, k, N, res); rp.G(N, alpha); for (int i = 0; i < k; i++) rp.U(N); delete_TorusPolynomial(m); }
                else if (opc == 7) { tLweSymEncryptT(c, (int32_t) w[0], alpha, tk); dump_tlwe(c, k, N, res); rp.G(N, alpha); for (int i = 0; i < k; i++) rp.U(N); }
                else if (opc == 8 || opc == 9) {
                    for (int i = 0; i <= k; i++) for (int j = 0; j < N; j++) c->a[i].coefsT[j] = (int32_t) w[(size_t) i * N + j];
                    int32_t M = (int32_t) w[(size_t) (k + 1) * N];
                    if (opc == 8) { TorusPolynomial *m = new_TorusPolynomial(N); tLweSymDecrypt(m, c, tk, M); for (int j = 0; j < N; j++) res.push_back(m->coefsT[j]); delete_TorusPolynomial(m); }
                    else res.push_back(tLweSymDecryptT(c, tk, M));
                } else {
                    TGswSample *g = new_TGswSample(gp);
                    for (int p = 0; p < (k + 1) * l; p++) { for (int i = 0; i <= k; i++) for (int j = 0; j < N; j++) g->all_sample[p].a[i].coefsT[j] = 0x3C3C3C3C - j; g->all_sample[p].current_variance = 7.; }
                    if (opc == 10) tGswSymEncryptInt(g, (int32_t) w[0], alpha, gk);
                    else { IntPolynomial *m = new_IntPolynomial(N); for (int j = 0; j < N; j++) m->coefs[j] = (int32_t) w[j]; tGswSymEncrypt(g, m, alpha, gk); delete_IntPolynomial(m); }
                    for (int p = 0; p < (k + 1) * l; p++) { dump_tlwe(&g->all_sample[p], k, N, res); rp.G(N, alpha); for (int i = 0; i < k; i++) rp.U(N); }
                    delete_TGswSample(g);
                }
                delete_TLweSample(c);
            }
            delete_TGswKey(gk); delete_TGswParams(gp); delete_TLweParams(tp);
        } else if (opc == 12) {
            int n = v[0], nout = v[1], t = v[2], b = v[3]; const int base = 1 << b;
            LweParams *lin = new_LweParams(n, 0., 0.25), *lout = new_LweParams(nout, alpha, 0.25);
            LweKey *ki = new_LweKey(lin), *ko = new_LweKey(lout);
            for (int i = 0; i < n; i++) ki->key[i] = (int32_t) v[4 + i];
            for (int i = 0; i < nout; i++) ko->key[i] = (int32_t) v[4 + n + i];
            LweKeySwitchKey *ks = new_LweKeySwitchKey(n, t, b, lout);
            lweCreateKeySwitchKey(ks, ki, ko);
            for (int r = 0; r < n * t * base; r++) dump_lwe(&ks->ks0_raw[r], nout, res);
            rp.G(n * t * (base - 1), alpha); for (int r = 0; r < n * t * (base - 1); r++) rp.U(nout);
            delete_LweKeySwitchKey(ks); delete_LweKey(ko); delete_LweKey(ki); delete_LweParams(lout); delete_LweParams(lin);
        } else if (opc == 15) {   // lweCreateKeySwitchKey_old: n nout t b in_key out_key
            int n = v[0], nout = v[1], t = v[2], b = v[3]; const int base = 1 << b;
            LweParams *lin = new_LweParams(n, 0., 0.25), *lout = new_LweParams(nout, alpha, 0.25);
            LweKey *ki = new_LweKey(lin), *ko = new_LweKey(lout);
            for (int i = 0; i < n; i++) ki->key[i] = (int32_t) v[4 + i];
            for (int i = 0; i < nout; i++) ko->key[i] = (int32_t) v[4 + n + i];
            LweKeySwitchKey *ks = new_LweKeySwitchKey(n, t, b, lout);
            lweCreateKeySwitchKey_old(ks, ki, ko);
            for (int r = 0; r < n * t * base; r++) dump_lwe(&ks->ks0_raw[r], nout, res);
            for (int r = 0; r < n * t * base; r++) { rp.G(1, alpha); rp.U(nout); }
            delete_LweKeySwitchKey(ks); delete_LweKey(ko); delete_LweKey(ki); delete_LweParams(lout); delete_LweParams(lin);
        } else if (opc == 17) {   // one process, one key, a sequence of TLWE encryptions with different noise levels and message spaces:
                                  // k N key(kN) count (alpha_units Msize mu)*  ->  per item: tLweSymDecryptT(tLweSymEncryptT(mu/Msize, alpha)), then the same through
                                  // a polynomial message (coefficient 0) and tLweSymEncrypt / tLweSymDecrypt
            int k = v[0], N = v[1]; const ll *w = v + 2;
            TLweParams *tp = new_TLweParams(N, k, 0., 0.25); TLweKey *tk = new_TLweKey(tp);
            for (int i = 0; i < k; i++) for (int j = 0; j < N; j++) tk->key[i].coefs[j] = (int32_t) w[(size_t) i * N + j];
            w += (size_t) k * N; int cnt = (int) w[0]; w++;
            TLweSample *c = new_TLweSample(tp); TorusPolynomial *m = new_TorusPolynomial(N), *d = new_TorusPolynomial(N);
            for (int q = 0; q < cnt; q++) { double al = ldexp((double) w[3 * q], -40); int32_t M = (int32_t) w[3 * q + 1], mu = (int32_t) w[3 * q + 2];
                Torus32 enc = modSwitchToTorus32(mu, M);
                tLweSymEncryptT(c, enc, al, tk); res.push_back(tLweSymDecryptT(c, tk, M) == enc ? 1 : 0);
                for (int j = 0; j < N; j++) m->coefsT[j] = modSwitchToTorus32((mu + j) % M, M);
                tLweSymEncrypt(c, m, al, tk); tLweSymDecrypt(d, c, tk, M); long bad = 0; for (int j = 0; j < N; j++) if (d->coefsT[j] != m->coefsT[j]) bad++;
                res.push_back(bad); }
            delete_TorusPolynomial(d); delete_TorusPolynomial(m); delete_TLweSample(c); delete_TLweKey(tk); delete_TLweParams(tp);
            rp.g = generator;      // (the draw sequence is not replayed here)
        } else if (opc == 16) {   // seeding and use in different threads: n  ->  LWE key generated by a worker thread, then the masks of two encryptions made by two
                                  // further worker threads one after the other (the seed was set by the main thread above); then the same on the main thread
            int n = v[0]; LweParams *lp = new_LweParams(n, alpha, 0.25); LweKey *k = new_LweKey(lp); LweSample *c1 = new_LweSample(lp), *c2 = new_LweSample(lp);
            { std::thread t([&]() { lweKeyGen(k); }); t.join(); }
            { std::thread t([&]() { lweSymEncrypt(c1, 1 << 29, alpha, k); }); t.join(); }
            { std::thread t([&]() { lweSymEncrypt(c2, 1 << 29, alpha, k); }); t.join(); }
            for (int i = 0; i < n; i++) res.push_back(k->key[i]);
            dump_lwe(c1, n, res); dump_lwe(c2, n, res);
            rp.B(n); rp.G(1, alpha); rp.U(n); rp.G(1, alpha); rp.U(n);
            delete_LweSample(c2); delete_LweSample(c1); delete_LweKey(k); delete_LweParams(lp);
        } else if (opc == 13) {
            int n = v[0], k = v[1], N = v[2], l = v[3], B = v[4], t = v[5], bb = v[6]; const int base = 1 << bb;
            LweParams *lp = new_LweParams(n, alpha, 0.25); TLweParams *tp = new_TLweParams(N, k, alpha2, 0.25); TGswParams *gp = new_TGswParams(l, B, tp);
            TFheGateBootstrappingParameterSet *ps = new TFheGateBootstrappingParameterSet(t, bb, lp, gp);
            TFheGateBootstrappingSecretKeySet *sk = new_random_gate_bootstrapping_secret_keyset(ps);
            for (int i = 0; i < n; i++) res.push_back(sk->lwe_key->key[i]);
            for (int i = 0; i < k; i++) for (int j = 0; j < N; j++) res.push_back(sk->tgsw_key->tlwe_key.key[i].coefs[j]);
            const LweKeySwitchKey *ks = sk->cloud.bk->ks;
            for (int r = 0; r < k * N * t * base; r++) dump_lwe(&ks->ks0_raw[r], n, res);
            for (int i = 0; i < n; i++) for (int p = 0; p < (k + 1) * l; p++) dump_tlwe(&sk->cloud.bk->bk[i].all_sample[p], k, N, res);
            rp.B(n); rp.B(k * N);
            rp.G(k * N * t * (base - 1), alpha); for (int r = 0; r < k * N * t * (base - 1); r++) rp.U(n);
            for (int i = 0; i < n; i++) for (int p = 0; p < (k + 1) * l; p++) { rp.G(N, alpha2); for (int u = 0; u < k; u++) rp.U(N); }
            delete_gate_bootstrapping_secret_keyset(sk); delete ps; delete_TGswParams(gp); delete_TLweParams(tp); delete_LweParams(lp);
        }
        emit(rp.g == generator, res, rp);
    }
    return 0;
}
