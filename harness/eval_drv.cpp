// harness/eval_drv.cpp — side effects of evaluation (C15) and determinism / thread-safety / history-independence (C06).
//   alias <spec> g pattern a1(n) b1 a2(n) b2 a3(n) b3   pattern: 0 result separate, 1 result=a, 2 result=b, 3 result=c, 4 a=b, 5 all the same object
//        -> inputs_unchanged keys_unchanged generator_unchanged result(a.., b)
//   frame <spec>  -> per evaluation function: inputs_unchanged keys_unchanged generator_unchanged (1/0 each), in the order documented below
//   threads <spec> nthreads iters mode -> mismatches evaluations   (outputs computed concurrently vs the sequential reference)
//   history <spec> -> mismatches evaluations   (same evaluation after different histories / with poisoned scratch buffers)
//   footprint <spec> -> bytes of the library's writable ELF segments that differ before/after a batch of evaluations (after warm-up)
#include <cstdio>
#include <cstdlib>
#include <cstring>
#include <cmath>
#include <string>
#include <vector>
#include <iostream>
#include <random>
#include <thread>
#include <chrono>
#include <cfenv>
#include <atomic>
#include <link.h>
#include "tfhe.h"
#include "tfhe_io.h"
#include "lwe-functions.h"
#include "tlwe_functions.h"
#include "tgsw_functions.h"
#include "numeric_functions.h"
#include "polynomials_arithmetic.h"
#include "lagrangehalfc_arithmetic.h"
#include "keys_common.h"
#include "ro_mem.h"
// access to the calling thread's FFT processor (scratch buffers are private members): the back-end's own header, after every
// standard header has been seen
#if defined(FAM_SPQLIOS) || defined(FAM_NAYUKI) || defined(FAM_FFTW)
#define private public
#include "lagrangehalfc_impl.h"
#undef private
#endif

extern std::default_random_engine generator;

static void out(const V &r) {
    std::string s; char buf[32];
    for (size_t i = 0; i < r.size(); i++) { if (i) s.push_back(' '); snprintf(buf, sizeof buf, "%lld", r[i]); s += buf; }
    s.push_back('\n'); fwrite(s.data(), 1, s.size(), stdout); fflush(stdout);
}
static uint64_t fnv(const void *p, size_t n, uint64_t h = 1469598103934665603ULL) {
    // word-wise multiplicative hash (every byte of the buffer enters; key material is hundreds of megabytes)
    const unsigned char *c = (const unsigned char *) p; size_t i = 0;
    for (; i + 8 <= n; i += 8) { uint64_t w; memcpy(&w, c + i, 8); h = (h ^ w) * 1099511628211ULL; h ^= h >> 29; }
    for (; i < n; i++) { h ^= c[i]; h *= 1099511628211ULL; }
    return h;
}
// the coefficient array of a Lagrange-domain polynomial: in all three back-end families the implementation object is constructed
// in place over the public two-pointer structure and its first member (= data) is the pointer to N doubles (N/2 complex values)
static const double *lag_coefs(const LagrangeHalfCPolynomial *p) { return (const double *) p->data; }
static uint64_t hash_cloud(const TFheGateBootstrappingCloudKeySet *ck) {
    const TFheGateBootstrappingParameterSet *P = ck->params; const int n = P->in_out_params->n; const TGswParams *gp = P->tgsw_params;
    const int N = gp->tlwe_params->N, k = gp->tlwe_params->k, kpl = gp->kpl;
    uint64_t h = 1469598103934665603ULL;
    h = fnv(&P->ks_t, 4, h); h = fnv(&P->ks_basebit, 4, h); h = fnv(&n, 4, h); h = fnv(&P->in_out_params->alpha_min, 8, h);
    h = fnv(&gp->l, 4, h); h = fnv(&gp->Bgbit, 4, h); h = fnv(&gp->offset, 4, h); h = fnv(gp->h, 4 * gp->l, h); h = fnv(&N, 4, h); h = fnv(&k, 4, h);
    const LweBootstrappingKey *bk = ck->bk;
    for (int i = 0; i < n; i++) for (int q = 0; q < kpl; q++) for (int u = 0; u <= k; u++) h = fnv(bk->bk[i].all_sample[q].a[u].coefsT, 4 * N, h);
    const LweKeySwitchKey *ks = bk->ks; const long rows = (long) ks->n * ks->t * ks->base;
    for (long r = 0; r < rows; r++) { h = fnv(ks->ks0_raw[r].a, 4 * n, h); h = fnv(&ks->ks0_raw[r].b, 4, h); }
    const LweBootstrappingKeyFFT *bf = ck->bkFFT;
    for (int i = 0; i < n; i++) for (int q = 0; q < kpl; q++) for (int u = 0; u <= k; u++) h = fnv(lag_coefs(&bf->bkFFT[i].all_samples[q].a[u]), 8 * N, h);
    const LweKeySwitchKey *ks2 = bf->ks; const long rows2 = (long) ks2->n * ks2->t * ks2->base;
    for (long r = 0; r < rows2; r++) { h = fnv(ks2->ks0_raw[r].a, 4 * n, h); h = fnv(&ks2->ks0_raw[r].b, 4, h); }
    return h;
}
static std::vector<int32_t> snap(const LweSample *s, int n) { std::vector<int32_t> v(s->a, s->a + n); v.push_back(s->b); return v; }
static void setlwe(LweSample *s, int n, const ll *v) { for (int i = 0; i < n; i++) s->a[i] = (int32_t) v[i]; s->b = (int32_t) v[n]; s->current_variance = 0; }

static void op_alias(const V &a, V &r) {
    need_keys(a);
    const TFheGateBootstrappingParameterSet *P = cur.params; const int n = P->in_out_params->n;
    const ll *v = a.data() + SPECN; int g = v[0], pat = v[1]; v += 2;
    LweSample *w = new_gate_bootstrapping_ciphertext_array(4, P);
    for (int q = 0; q < 3; q++) setlwe(&w[q], n, v + (size_t) q * (n + 1));
    LweSample *pa = &w[0], *pb = &w[1], *pc = &w[2], *res = &w[3];
    if (pat == 1) res = pa; else if (pat == 2) res = pb; else if (pat == 3) res = pc; else if (pat == 4) pb = pa; else if (pat == 5) { pb = pa; pc = pa; res = pa; }
    std::vector<int32_t> s0 = snap(&w[0], n), s1 = snap(&w[1], n), s2 = snap(&w[2], n);
    uint64_t hk = hash_cloud(&cur.sk->cloud); std::default_random_engine g0 = generator;
    // pattern 6: the three input ciphertexts (structure and mask array) live in read-only memory during the call: a gate that writes to
    // an input, even if it restores it before returning, dies
    RoArena arena(3 * ((size_t) n * 4 + sizeof(LweSample) + 256) + 4096);
    if (pat == 6) {
        LweSample *ro[3];
        for (int q = 0; q < 3; q++) { char img[sizeof(LweSample)]; memcpy(img, (const void *) &w[q], sizeof(LweSample));
            ((LweSample *) img)->a = (Torus32 *) arena.put(w[q].a, (size_t) n * 4); ro[q] = (LweSample *) arena.put(img, sizeof(LweSample)); }
        arena.seal(); pa = ro[0]; pb = ro[1]; pc = ro[2];
    }
    apply_gate(g, res, pa, pb, pc, (int) v[n], &cur.sk->cloud);
    if (pat == 6) arena.unseal();
    bool in_ok = true;
    if (res != &w[0] && snap(&w[0], n) != s0) in_ok = false;
    if (res != &w[1] && snap(&w[1], n) != s1) in_ok = false;
    if (res != &w[2] && snap(&w[2], n) != s2) in_ok = false;
    r.push_back(in_ok); r.push_back(hash_cloud(&cur.sk->cloud) == hk); r.push_back(g0 == generator);
    for (int i = 0; i < n; i++) r.push_back(res->a[i]); r.push_back(res->b);
    delete_gate_bootstrapping_ciphertext_array(4, w);
}

// frame: every evaluation function with snapshots of all its inputs, of the key material and of the generator
static void op_frame(const V &a, V &r) {
    need_keys(a);
    const TFheGateBootstrappingParameterSet *P = cur.params; const int n = P->in_out_params->n;
    const TGswParams *gp = P->tgsw_params; const TLweParams *tp = gp->tlwe_params; const int N = tp->N, k = tp->k;
    const LweBootstrappingKey *bk = cur.sk->cloud.bk; const LweBootstrappingKeyFFT *bf = cur.sk->cloud.bkFFT;
    std::mt19937 rg((unsigned) a[SPECN]);
    LweSample *x = new_LweSample(P->in_out_params), *res = new_LweSample(P->in_out_params), *u = new_LweSample(&tp->extracted_lweparams);
    for (int i = 0; i < n; i++) x->a[i] = (int32_t) rg(); x->b = (int32_t) rg();
    // exact rounding ties of the modulus switch to 2N (low 21 bits = 2^20 for N = 1024) on some coefficients and on the body:
    // whatever the tie rule, resolving it must not consume randomness nor touch anything else
    { const uint32_t lowmask = (uint32_t) ((1ull << 32) / (2 * (uint64_t) N)) - 1, half = (lowmask + 1) / 2;
      x->a[0] = (int32_t) (((uint32_t) x->a[0] & ~lowmask) | half); x->a[n / 2] = (int32_t) (((uint32_t) x->a[n / 2] & ~lowmask) | half);
      x->b = (int32_t) (((uint32_t) x->b & ~lowmask) | half); }
    for (int i = 0; i < k * N; i++) u->a[i] = (int32_t) rg(); u->b = (int32_t) rg();
    TLweSample *acc = new_TLweSample(tp), *acc0 = new_TLweSample(tp);
    for (int q = 0; q <= k; q++) for (int j = 0; j < N; j++) acc->a[q].coefsT[j] = (int32_t) rg();
    TorusPolynomial *tv = new_TorusPolynomial(N); for (int j = 0; j < N; j++) tv->coefsT[j] = (int32_t) rg();
    std::vector<int32_t> bara(n); for (int i = 0; i < n; i++) bara[i] = rg() % (2 * N);
    auto tl = [&](const TLweSample *s) { uint64_t h = 0; for (int q = 0; q <= k; q++) h = fnv(s->a[q].coefsT, 4 * N, h + 7); return h; };
    auto check = [&](bool inputs_ok, uint64_t hk, const std::default_random_engine &g0) {
        r.push_back(inputs_ok); r.push_back(hash_cloud(&cur.sk->cloud) == hk); r.push_back(g0 == generator); };
    uint64_t hk = hash_cloud(&cur.sk->cloud); std::default_random_engine g0 = generator;
    std::vector<int32_t> sx = snap(x, n), su = snap(u, k * N);
    // 0 tfhe_bootstrap_FFT  1 tfhe_bootstrap_woKS_FFT  2 tfhe_bootstrap  3 tfhe_bootstrap_woKS
    { RoArena ar((size_t) n * 4 + sizeof(LweSample) + 4096); char img[sizeof(LweSample)]; memcpy(img, (const void *) x, sizeof(LweSample));
      ((LweSample *) img)->a = (Torus32 *) ar.put(x->a, (size_t) n * 4); const LweSample *xro = (const LweSample *) ar.put(img, sizeof(LweSample)); ar.seal();
      tfhe_bootstrap_FFT(res, bf, 1 << 29, xro); tfhe_bootstrap_woKS_FFT(u, bf, 1 << 29, xro); if (n <= 64) { tfhe_bootstrap(res, bk, 1 << 29, xro); tfhe_bootstrap_woKS(u, bk, 1 << 29, xro); } ar.unseal(); }
    tfhe_bootstrap_FFT(res, bf, 1 << 29, x); check(snap(x, n) == sx, hk, g0);
    tfhe_bootstrap_woKS_FFT(u, bf, 1 << 29, x); check(snap(x, n) == sx, hk, g0); su = snap(u, k * N);
    if (n <= 64) { tfhe_bootstrap(res, bk, 1 << 29, x); check(snap(x, n) == sx, hk, g0); tfhe_bootstrap_woKS(u, bk, 1 << 29, x); check(snap(x, n) == sx, hk, g0); su = snap(u, k * N); }
    else { for (int i = 0; i < 6; i++) r.push_back(1); }
    // 4 lweKeySwitch
    // (mask coefficients that round to zero at the key-switching precision included; the input lives in read-only memory during the call)
    u->a[0] = 0; u->a[1] = 0x1234; u->a[2] = -5; u->a[k * N - 1] = 1 << 14; su = snap(u, k * N);
    { RoArena ar((size_t) k * N * 4 + sizeof(LweSample) + 4096); char img[sizeof(LweSample)]; memcpy(img, (const void *) u, sizeof(LweSample));
      ((LweSample *) img)->a = (Torus32 *) ar.put(u->a, (size_t) k * N * 4); const LweSample *uro = (const LweSample *) ar.put(img, sizeof(LweSample)); ar.seal();
      lweKeySwitch(res, bf->ks, uro); ar.unseal(); }
    lweKeySwitch(res, bf->ks, u); check(snap(u, k * N) == su, hk, g0);
    // 5 tLweExtractLweSample  6 tLweExtractLweSampleIndex
    uint64_t ha = tl(acc);
    tLweExtractLweSample(u, acc, &tp->extracted_lweparams, tp); check(tl(acc) == ha, hk, g0);
    tLweExtractLweSampleIndex(u, acc, N / 3, &tp->extracted_lweparams, tp); check(tl(acc) == ha, hk, g0);
    // 7 tGswFFTExternMulToTLwe  8 tGswExternMulToTLwe : the accumulator is in/out; the TGSW sample is an input
    tGswFFTExternMulToTLwe(acc, &bf->bkFFT[0], gp); check(true, hk, g0);
    tGswExternMulToTLwe(acc, &bk->bk[0], gp); check(true, hk, g0);
    // 9 tGswTLweDecompH : the sample is an input (offset added and removed on the caller's buffer)
    IntPolynomial *dec = new_IntPolynomial_array(gp->kpl, N); ha = tl(acc);
    tGswTLweDecompH(dec, acc, gp); check(tl(acc) == ha, hk, g0);
    // 10 tfhe_blindRotate_FFT (bara is an input)  11 tfhe_blindRotateAndExtract_FFT (test polynomial and bara are inputs)
    std::vector<int32_t> b0 = bara; int nn = n < 8 ? n : 8;
    tfhe_blindRotate_FFT(acc, bf->bkFFT, bara.data(), nn, gp); check(bara == b0, hk, g0);
    uint64_t htv = fnv(tv->coefsT, 4 * N);
    tfhe_blindRotateAndExtract_FFT(u, tv, bf->bkFFT, 5, bara.data(), nn, gp); check(bara == b0 && fnv(tv->coefsT, 4 * N) == htv, hk, g0);
    // 12 tLweMulByXaiMinusOne  13 tLweAddTo
    for (int q = 0; q <= k; q++) for (int j = 0; j < N; j++) acc0->a[q].coefsT[j] = (int32_t) rg();
    ha = tl(acc0);
    tLweMulByXaiMinusOne(acc, 77, acc0, tp); check(tl(acc0) == ha, hk, g0);
    tLweAddTo(acc, acc0, tp); check(tl(acc0) == ha, hk, g0);
    // 14-17: operands whose polynomials are identically zero (noiseless trivial samples: the mask of a constant), and a bootstrapping
    //        of a noiseless trivial LWE sample: the special values must leave the inputs alone like any other
    { TLweSample *tz = new_TLweSample(tp), *tr = new_TLweSample(tp); TorusPolynomial *zp = new_TorusPolynomial(N);
      for (int q = 0; q < k; q++) for (int j = 0; j < N; j++) tz->a[q].coefsT[j] = 0;
      for (int j = 0; j < N; j++) { tz->a[k].coefsT[j] = (j == 0) ? (1 << 29) : 0; zp->coefsT[j] = 0; }
      ha = tl(tz);
      tGswTLweDecompH(dec, tz, gp); check(tl(tz) == ha, hk, g0);                                            // 14 tGswTLweDecompH (trivial sample)
      uint64_t hz = fnv(zp->coefsT, 4 * N);
      tGswTorus32PolynomialDecompH(dec, zp, gp); check(fnv(zp->coefsT, 4 * N) == hz, hk, g0);                // 15 tGswTorus32PolynomialDecompH (zero polynomial)
      tGswExternProduct(tr, &bk->bk[0], tz, gp); uint64_t h1 = tl(tr); bool ok = tl(tz) == ha;
      tGswExternProduct(tr, &bk->bk[0], tz, gp); check(ok && tl(tz) == ha && tl(tr) == h1, hk, g0);          // 16 tGswExternProduct (trivial operand, twice)
      for (int i = 0; i < n; i++) x->a[i] = 0; x->b = 1 << 29; sx = snap(x, n);
      tfhe_bootstrap_FFT(res, bf, 1 << 29, x); check(snap(x, n) == sx, hk, g0);                              // 17 tfhe_bootstrap_FFT (trivial input)
      delete_TorusPolynomial(zp); delete_TLweSample(tr); delete_TLweSample(tz); }
    // 18: a gate and a bootstrapping as the FIRST use of the FFT on a fresh thread (whatever the thread's FFT state needs when it is built, it is not
    //     drawn from the library's generator; inputs and keys untouched as before)
    { for (int i = 0; i < n; i++) x->a[i] = (int32_t) rg(); x->b = (int32_t) rg(); sx = snap(x, n);
      LweSample *o2 = new_LweSample(cur.params->in_out_params);
      std::thread t([&]() { bootsNAND(o2, x, x, &cur.sk->cloud); tfhe_bootstrap_FFT(res, bf, 1 << 29, x); }); t.join();
      check(snap(x, n) == sx, hk, g0); delete_LweSample(o2); }
    delete_IntPolynomial_array(gp->kpl, dec); delete_TorusPolynomial(tv); delete_TLweSample(acc0); delete_TLweSample(acc);
    delete_LweSample(u); delete_LweSample(res); delete_LweSample(x);
}

// ---- C06 ----
struct Work { int g; std::vector<int32_t> in[3]; std::vector<int32_t> ref; };
static void eval_work(const Work &wk, std::vector<int32_t> &outv, int n) {
    const TFheGateBootstrappingParameterSet *P = cur.params;
    LweSample *w = new_gate_bootstrapping_ciphertext_array(4, P);
    for (int q = 0; q < 3; q++) { for (int i = 0; i < n; i++) w[q].a[i] = wk.in[q][i]; w[q].b = wk.in[q][n]; }
    apply_gate(wk.g, &w[3], &w[0], &w[1], &w[2], 1, &cur.sk->cloud);
    outv = snap(&w[3], n);
    delete_gate_bootstrapping_ciphertext_array(4, w);
}
static void make_work(std::vector<Work> &ws, int m, int n, unsigned seed) {
    std::mt19937 rg(seed); ws.resize(m);
    int gates[] = {0, 3, 13, 2, 1, 13, 4, 5};
    for (int i = 0; i < m; i++) { ws[i].g = gates[i % 8];
        for (int q = 0; q < 3; q++) { ws[i].in[q].resize(n + 1); for (int j = 0; j <= n; j++) ws[i].in[q][j] = (int32_t) rg(); } }
    // special values of the rounded input on some items: body that rounds to barb = 0 / to N exactly, mask coefficients that round to 0
    for (int i = 0; i < m; i++) {
        int kind = i % 4;                      // 0: random (above)
        if (kind == 0 || ws[i].g == 13) continue;
        ws[i].g = (kind == 1) ? 0 : (kind == 2) ? 2 : 0;          // NAND, AND, NAND
        for (int j = 0; j < n; j++) if (j % 3 == 0) { ws[i].in[0][j] = 0; ws[i].in[1][j] = 0; }
        ws[i].in[1][n] = 0;
        ws[i].in[0][n] = (kind == 3) ? (int32_t) 0xA0000000u : (1 << 29);   // NAND: 1/8 - b = 0 (kinds 1), AND: -1/8 + 1/8 = 0 (kind 2), NAND: 1/2 (kind 3)
    }
}
static uint64_t unrelated_fft(unsigned seed, int reps) {   // FFT products of unrelated polynomials on the calling thread; hash of the results
    std::mt19937 rg(seed); const int N = 1024; uint64_t h = 0;
    IntPolynomial *A = new_IntPolynomial(N); TorusPolynomial *B = new_TorusPolynomial(N), *R = new_TorusPolynomial(N);
    for (int r = 0; r < reps; r++) { for (int i = 0; i < N; i++) { A->coefs[i] = (int32_t) (rg() % 1024) - 512; B->coefsT[i] = (int32_t) rg(); } torusPolynomialMultFFT(R, A, B); h = fnv(R->coefsT, 4 * N, h + 3); }
    delete_TorusPolynomial(R); delete_TorusPolynomial(B); delete_IntPolynomial(A);
    return h;
}
// ---- FFTW back-end: how many threads are inside FFTW's planner API (creation and destruction of plans; only fftw_execute is
//      reentrant) at once.  The harness interposes the three entry points the library uses. ----
#if defined(FAM_FFTW)
#include <dlfcn.h>
#include <fftw3.h>
static std::atomic<int> pl_inside(0), pl_max(0), pl_overlaps(0);
struct PlGuard { PlGuard() { int v = ++pl_inside; int m = pl_max.load(); while (v > m && !pl_max.compare_exchange_weak(m, v)) {} if (v > 1) pl_overlaps++; } ~PlGuard() { --pl_inside; } };
extern "C" fftw_plan fftw_plan_dft_r2c_1d(int n, double *in, fftw_complex *out, unsigned flags) {
    static auto real = (fftw_plan (*)(int, double *, fftw_complex *, unsigned)) dlsym(RTLD_NEXT, "fftw_plan_dft_r2c_1d"); PlGuard g; return real(n, in, out, flags); }
extern "C" fftw_plan fftw_plan_dft_c2r_1d(int n, fftw_complex *in, double *out, unsigned flags) {
    static auto real = (fftw_plan (*)(int, fftw_complex *, double *, unsigned)) dlsym(RTLD_NEXT, "fftw_plan_dft_c2r_1d"); PlGuard g; return real(n, in, out, flags); }
extern "C" void fftw_destroy_plan(fftw_plan p) {
    static auto real = (void (*)(fftw_plan)) dlsym(RTLD_NEXT, "fftw_destroy_plan"); PlGuard g; real(p); }
#endif
// churn gens threads seed : generations of short-lived threads, each doing a few FFT products as its first and only work (the per-thread
//   FFT state is built when a thread starts and released when it exits, all at about the same time).  prints: mismatches against the
//   sequential reference, products, max threads inside the FFTW planner API at once (-1: not the FFTW back-end), overlapping planner calls
static void op_churn(const V &a, V &r) {
    const int gens = (int) a[0], nt = (int) a[1]; const unsigned seed = (unsigned) a[2];
    uint64_t ref[4]; for (int q = 0; q < 4; q++) ref[q] = unrelated_fft(seed + q, 1 + q % 2);
    std::atomic<long> mism(0), n(0);
    for (int g = 0; g < gens; g++) {
        std::vector<std::thread> th;
        for (int t = 0; t < nt; t++) th.emplace_back([&, t]() { int q = (g + t) % 4; if (unrelated_fft(seed + q, 1 + q % 2) != ref[q]) mism++; n++; });
        for (auto &t : th) t.join();
    }
    r.push_back(mism); r.push_back(n);
#if defined(FAM_FFTW)
    r.push_back(pl_max.load()); r.push_back(pl_overlaps.load());
#else
    r.push_back(-1); r.push_back(0);
#endif
}
// threads <spec> nthreads iters mode : mode bit 0: yields/random start offsets, bit 1: a key-generation thread with its own data runs alongside,
//   bit 2: each worker interleaves unrelated FFT products, bit 3: threads are created and destroyed once per item instead of once
static void op_threads(const V &a, V &r) {
    need_keys(a);
    const int n = cur.params->in_out_params->n; const ll *v = a.data() + SPECN; int nt = v[0], iters = v[1], mode = v[2];
    std::vector<Work> ws; make_work(ws, iters, n, (unsigned) v[3]);
    for (auto &wk : ws) eval_work(wk, wk.ref, n);          // sequential reference on the main thread
    uint64_t fref[8]; for (int q = 0; q < 8; q++) fref[q] = unrelated_fft(1000 + q + (unsigned) v[3], 1 + q % 3);   // and of the unrelated products
    std::atomic<long> mism(0), evals(0), fmism(0); std::atomic<bool> stop(false);
    std::thread keygen;
    if (mode & 2) keygen = std::thread([&]() {   // its own parameter objects and keys; uses the global generator (not touched by evaluation)
        while (!stop) { LweParams *lp = new_LweParams(300, 1e-5, 0.01); LweKey *kk = new_LweKey(lp); lweKeyGen(kk); LweSample *c = new_LweSample(lp);
            for (int i = 0; i < 50; i++) lweSymEncrypt(c, 1 << 29, 1e-5, kk); delete_LweSample(c); delete_LweKey(kk); delete_LweParams(lp); } });
    auto worker = [&](int id, int from, int to) {
        std::mt19937 rg(id * 7919 + 1);
        if (mode & 1) for (unsigned s = rg() % 2000; s > 0; s--) std::this_thread::yield();
        for (int i = from; i < to; i++) {
            const Work &wk = ws[(i + id * 3) % iters]; std::vector<int32_t> o;
            if (mode & 4) { int q = rg() % 8; if (unrelated_fft(1000 + q + (unsigned) v[3], 1 + q % 3) != fref[q]) fmism++; }
            eval_work(wk, o, n); evals++;
            if (o != wk.ref) mism++;
            if (mode & 1) std::this_thread::yield();
        } };
    // the main thread (the first one that ever used the FFT in this process) evaluates alongside the workers
    if (mode & 8) { for (int i = 0; i < iters; i++) { std::vector<std::thread> th; for (int t = 0; t < nt; t++) th.emplace_back(worker, t, i, i + 1); worker(nt, i, i + 1); for (auto &t : th) t.join(); } }
    else { std::vector<std::thread> th; for (int t = 0; t < nt; t++) th.emplace_back(worker, t, 0, iters); worker(nt, 0, iters); for (auto &t : th) t.join(); }
    stop = true; if (keygen.joinable()) keygen.join();
    r.push_back(mism); r.push_back(evals); r.push_back(fmism);
}
// keythread <spec> seed : the key set generated by a fresh thread from the same seed is the same key set (secret keys, bootstrapping
// key, its FFT image, key-switching key), and gates evaluated with it give the reference outputs
static void op_keythread(const V &a, V &r) {
    need_keys(a);
    const int n = cur.params->in_out_params->n; const ll *v = a.data() + SPECN;
    std::vector<Work> ws; make_work(ws, 4, n, (unsigned) v[0]);
    for (auto &wk : ws) eval_work(wk, wk.ref, n);
    uint64_t h0 = hash_cloud(&cur.sk->cloud);
    TFheGateBootstrappingSecretKeySet *sk2 = 0;
    std::thread t([&]() { uint32_t seed = (uint32_t) a[9]; tfhe_random_generator_setSeed(&seed, 1); sk2 = new_random_gate_bootstrapping_secret_keyset(cur.params); });
    t.join();
    long mism = 0, evals = 0;
    r.push_back(hash_cloud(&sk2->cloud) == h0 ? 0 : 1);
    TFheGateBootstrappingSecretKeySet *keep = cur.sk; cur.sk = sk2;
    for (auto &wk : ws) { std::vector<int32_t> o; eval_work(wk, o, n); evals++; if (o != wk.ref) mism++; }
    cur.sk = keep; delete_gate_bootstrapping_secret_keyset(sk2);
    r.push_back(mism); r.push_back(evals);
}
// refhash <spec> seed pre : hash of the outputs of the work items; with pre = 1 the process first generates ANOTHER key set (the
// 80-bit default, or the 128-bit one if the spec is the 80-bit one) and evaluates every kind of gate under it, so that the key set of
// the spec is the second one this process and thread ever use.  The two hashes (pre = 0 / 1, separate processes) must be equal.
static void op_refhash(const V &a, V &r) {
    const ll *v = a.data() + SPECN; int pre = (int) v[1];
    if (pre == 1) {
        uint32_t seed = 4242; tfhe_random_generator_setSeed(&seed, 1);
        TFheGateBootstrappingParameterSet *p2 = new_default_gate_bootstrapping_parameters(a[0] == 80 ? 128 : 80);
        TFheGateBootstrappingSecretKeySet *sk2 = new_random_gate_bootstrapping_secret_keyset(p2);
        LweSample *w = new_gate_bootstrapping_ciphertext_array(4, p2);
        for (int g = 0; g < 14; g++) { for (int q = 0; q < 3; q++) bootsSymEncrypt(&w[q], (g >> q) & 1, sk2); apply_gate(g, &w[3], &w[0], &w[1], &w[2], 1, &sk2->cloud); }
        delete_gate_bootstrapping_ciphertext_array(4, w); delete_gate_bootstrapping_secret_keyset(sk2); delete_gate_bootstrapping_parameters(p2);
    }
    if (pre == 2) {   // ... or a small custom key set whose every layout parameter differs: n = 12, (l,Bgbit) = (4,5), key switch (t,basebit) = (5,3), other noise levels
        uint32_t seed = 4243; tfhe_random_generator_setSeed(&seed, 1);
        LweParams *lp = new_LweParams(12, ldexp(1., -17), 0.012467); TLweParams *tp = new_TLweParams(1024, 1, ldexp(1., -30), 0.012467); TGswParams *gp = new_TGswParams(4, 5, tp);
        TFheGateBootstrappingParameterSet *p2 = new TFheGateBootstrappingParameterSet(5, 3, lp, gp);
        TFheGateBootstrappingSecretKeySet *sk2 = new_random_gate_bootstrapping_secret_keyset(p2);
        LweSample *w = new_gate_bootstrapping_ciphertext_array(4, p2);
        for (int g = 0; g < 14; g++) { for (int q = 0; q < 3; q++) bootsSymEncrypt(&w[q], (g >> q) & 1, sk2); apply_gate(g, &w[3], &w[0], &w[1], &w[2], 1, &sk2->cloud); }
        delete_gate_bootstrapping_ciphertext_array(4, w); delete_gate_bootstrapping_secret_keyset(sk2); delete p2; delete_TGswParams(gp); delete_TLweParams(tp); delete_LweParams(lp);
    }
    need_keys(a);
    const int n = cur.params->in_out_params->n;
    std::vector<Work> ws; make_work(ws, 16, n, (unsigned) v[0]);
    for (int i = 0; i < 16; i++) if (i % 4 == 0) ws[i].g = 10 + (i / 4) % 4;      // NOT, COPY, CONSTANT, MUX among them
    uint64_t h = 0;
    for (auto &wk : ws) { eval_work(wk, wk.ref, n); h = fnv(wk.ref.data(), 4 * wk.ref.size(), h + 1); }
    r.push_back((ll) (h >> 1));
}
// nomain <spec> seed : the main thread never touches the FFT.  A set-up thread generates the key set, computes the reference outputs
// and exits (so every thread that ever ran a transform is gone); then three waves of four fresh threads evaluate the same items.
static void op_nomain(const V &a, V &r) {
    const ll *v = a.data() + SPECN; std::vector<Work> ws; int n = 0;
    std::thread setup([&]() { need_keys(a); n = cur.params->in_out_params->n; make_work(ws, 8, n, (unsigned) v[0]); for (auto &wk : ws) eval_work(wk, wk.ref, n); });
    setup.join();
    // idle threads that start after the set-up thread is gone and never touch the FFT: they inherit its stack and thread-local block (zero-filled by
    // the thread library), which stays that way while the others evaluate - a stale pointer into the set-up thread's per-thread state reads zeros
    std::atomic<bool> release(false); std::vector<std::thread> idle;
    for (int q = 0; q < 3; q++) idle.emplace_back([&]() { while (!release) std::this_thread::sleep_for(std::chrono::milliseconds(2)); });
    std::atomic<long> mism(0), evals(0);
    { std::vector<int32_t> o; eval_work(ws[0], o, n); evals++; if (o != ws[0].ref) mism++; }       // and the main thread, whose first FFT use this is
    for (int wave = 0; wave < 3; wave++) {
        std::vector<std::thread> th;
        for (int t = 0; t < 4; t++) th.emplace_back([&, t]() { for (int i = 0; i < 8; i++) { std::vector<int32_t> o; eval_work(ws[(i + t) % 8], o, n); evals++; if (o != ws[(i + t) % 8].ref) mism++; } });
        for (auto &t : th) t.join();
    }
    release = true; for (auto &t : idle) t.join();
    r.push_back(mism); r.push_back(evals);
}
// handover <spec> nthreads iters seed : objects of the FFT domain are created by one thread and transformed by another - each object is used
//   by one thread at a time (no sharing), and the shared key is only read:
//   phase 1  the main thread allocates the Lagrange temporaries of every worker; the workers run ifft / product / fft on them while the
//            main thread does the same on its own and evaluates gates; workers also convert rows of the const FFT key back;
//   phase 2  a helper thread allocates the temporaries and exits before anybody transforms them.
//   Every result is compared with the sequential reference computed beforehand.  prints: phase-1 product mismatches, row-conversion
//   mismatches, gate mismatches, phase-2 mismatches, operations
struct HItem { IntPolynomial *A; TorusPolynomial *B, *R; LagrangeHalfCPolynomial *la, *lb, *lc; uint64_t ref; };
// own_result: the result operand of the Lagrange-domain product is allocated by the calling thread (the library binds the *result* of
// Lagrange arithmetic to the FFT processor of the thread that allocated it: with a creator that has exited that is outside what the
// property covers - gates only ever use results allocated by the calling thread); the transforms must work on anybody's objects
static uint64_t hitem_run(HItem &it, bool own_result = false) { const int N = 1024;
    LagrangeHalfCPolynomial *lc = own_result ? new_LagrangeHalfCPolynomial(N) : it.lc;
    IntPolynomial_ifft(it.la, it.A); TorusPolynomial_ifft(it.lb, it.B); LagrangeHalfCPolynomialMul(lc, it.la, it.lb); TorusPolynomial_fft(it.R, lc);
    uint64_t h = fnv(it.R->coefsT, 4 * N);
    if (own_result) { TorusPolynomial_fft(it.R, it.lb); h = fnv(it.R->coefsT, 4 * N, h + 1); delete_LagrangeHalfCPolynomial(lc); }   // and a transform back from the foreign object
    return h; }
static void op_handover(const V &a, V &r) {
    need_keys(a);
    const int N = 1024, n = cur.params->in_out_params->n; const ll *v = a.data() + SPECN; const int nt = (int) v[0], iters = (int) v[1];
    const TGswParams *gp = cur.params->tgsw_params; const TLweParams *tp = gp->tlwe_params; const int k = tp->k;
    const LweBootstrappingKeyFFT *bf = cur.sk->cloud.bkFFT;
    std::mt19937 rg((unsigned) v[2]);
    auto mk = [&](HItem &it, bool with_lagrange) { it.A = new_IntPolynomial(N); it.B = new_TorusPolynomial(N); it.R = new_TorusPolynomial(N);
        for (int j = 0; j < N; j++) { it.A->coefs[j] = (int32_t) (rg() % 1024) - 512; it.B->coefsT[j] = (int32_t) rg(); }
        if (with_lagrange) { it.la = new_LagrangeHalfCPolynomial(N); it.lb = new_LagrangeHalfCPolynomial(N); it.lc = new_LagrangeHalfCPolynomial(N); } else it.la = it.lb = it.lc = 0; };
    auto rm = [&](HItem &it) { delete_LagrangeHalfCPolynomial(it.lc); delete_LagrangeHalfCPolynomial(it.lb); delete_LagrangeHalfCPolynomial(it.la);
        delete_TorusPolynomial(it.R); delete_TorusPolynomial(it.B); delete_IntPolynomial(it.A); };
    const int per = 3; std::vector<HItem> items((nt + 1) * per), late(nt * per);
    for (auto &it : items) { mk(it, true); it.ref = hitem_run(it); }                       // sequential reference, main thread, main thread's objects
    // rows of the const key converted back, sequentially
    const int nrows = 4; std::vector<uint64_t> rowref(nrows);
    auto conv = [&](int row) { TLweSample *t = new_TLweSample(tp); tLweFromFFTConvert(t, &bf->bkFFT[row % n].all_samples[row % gp->kpl], tp);
        uint64_t h = 0; for (int q = 0; q <= k; q++) h = fnv(t->a[q].coefsT, 4 * N, h + 7); delete_TLweSample(t); return h; };
    for (int q = 0; q < nrows; q++) rowref[q] = conv(q);
    std::vector<Work> ws; make_work(ws, 4, n, (unsigned) v[2] + 1); for (auto &wk : ws) eval_work(wk, wk.ref, n);
    std::atomic<long> m1(0), mrow(0), mg(0), m2(0), ops(0);
    {   std::vector<std::thread> th;
        for (int t = 0; t < nt; t++) th.emplace_back([&, t]() { for (int i = 0; i < iters; i++) { for (int q = 0; q < per; q++) { HItem &it = items[t * per + q]; if (hitem_run(it) != it.ref) m1++; ops++; }
            int row = (i + t) % nrows; if (conv(row) != rowref[row]) mrow++; ops++; } });
        for (int i = 0; i < iters; i++) { for (int q = 0; q < per; q++) { HItem &it = items[nt * per + q]; if (hitem_run(it) != it.ref) m1++; ops++; }
            std::vector<int32_t> o; eval_work(ws[i % 4], o, n); if (o != ws[i % 4].ref) mg++; ops++; }
        for (auto &t : th) t.join(); }
    // phase 2: the creator of the temporaries is gone
    for (auto &it : late) mk(it, false);
    { std::thread creator([&]() { for (auto &it : late) { it.la = new_LagrangeHalfCPolynomial(N); it.lb = new_LagrangeHalfCPolynomial(N); it.lc = new_LagrangeHalfCPolynomial(N); }
          HItem &w = late[0]; hitem_run(w, true); });                                            // it used its own FFT state before exiting
      creator.join(); }
    for (size_t q = 0; q < late.size(); q++) {   // reference through objects of the main thread
        HItem tmp = late[q]; tmp.la = items[0].la; tmp.lb = items[0].lb; tmp.lc = items[0].lc; late[q].ref = hitem_run(tmp, true); }
    {   std::vector<std::thread> th;
        for (int t = 0; t < nt; t++) th.emplace_back([&, t]() { for (int i = 0; i < iters; i++) for (int q = 0; q < per; q++) { HItem &it = late[t * per + q]; if (hitem_run(it, true) != it.ref) m2++; ops++; } });
        for (auto &t : th) t.join();
        for (int q = 0; q < per && q < (int) late.size(); q++) { if (hitem_run(late[q], true) != late[q].ref) m2++; ops++; } }
    for (auto &it : late) rm(it); for (auto &it : items) rm(it);
    r.push_back(m1); r.push_back(mrow); r.push_back(mg); r.push_back(m2); r.push_back(ops);
}
// x87 <spec> seed : a fresh thread whose FIRST FFT operation (an unrelated product) runs while the x87 control word asks for 53-bit precision and
//   round-toward-zero (legacy numerical code, a language runtime, an emulation layer); the control word is restored, then the thread evaluates.
//   The library computes in SSE/AVX arithmetic, which ignores that control word: the outputs are those of the reference.  prints mismatches, evaluations
static void op_x87(const V &a, V &r) {
    need_keys(a);
    const int n = cur.params->in_out_params->n; const ll *v = a.data() + SPECN;
    std::vector<Work> ws; make_work(ws, 6, n, (unsigned) v[0]);
    for (auto &wk : ws) eval_work(wk, wk.ref, n);
    uint64_t fref = unrelated_fft(77 + (unsigned) v[0], 2);
    std::atomic<long> mism(0), evals(0);
    std::thread t([&]() {
        unsigned short old = 0, neu = 0; __asm__ volatile("fnstcw %0" : "=m"(old));
        neu = (unsigned short) ((old & ~0x0F00) | 0x0200 | 0x0C00);            // precision control 53 bits, rounding control toward zero
        __asm__ volatile("fldcw %0" : : "m"(neu));
        uint64_t f = unrelated_fft(77 + (unsigned) v[0], 2);
        __asm__ volatile("fldcw %0" : : "m"(old));
        if (f != fref) mism++; evals++;
        for (auto &wk : ws) { std::vector<int32_t> o; eval_work(wk, o, n); evals++; if (o != wk.ref) mism++; } });
    t.join();
    r.push_back(mism); r.push_back(evals);
}
// history <spec> seed : the same evaluations after different histories on the same thread
static void op_history(const V &a, V &r) {
    need_keys(a);
    const int n = cur.params->in_out_params->n; const ll *v = a.data() + SPECN;
    std::vector<Work> ws; make_work(ws, 6, n, (unsigned) v[0]);
    for (auto &wk : ws) eval_work(wk, wk.ref, n);
    long mism = 0, evals = 0; std::mt19937 rg((unsigned) v[0] + 5);
    for (int round = 0; round < 4; round++) {
        for (int i = 0; i < 6; i++) {
            // history: other gates, unrelated FFT products with extreme values, key generation, encryption
            int h = (round == 1 && i == 0) ? 3 : rg() % 5; std::vector<int32_t> o;      // (the large product is always part of round 1)
            if (h == 0) unrelated_fft(rg(), 3);
            else if (h == 1) { eval_work(ws[rg() % 6], o, n); }
            else if (h == 2) { LweSample *c = new_gate_bootstrapping_ciphertext(cur.params); bootsSymEncrypt(c, 1, cur.sk); delete_gate_bootstrapping_ciphertext(c); }
            else if (h == 3) { const int N = 1024; IntPolynomial *A = new_IntPolynomial(N); TorusPolynomial *B = new_TorusPolynomial(N), *R = new_TorusPolynomial(N);
                // (every other time with coefficients around 2^30: the unreduced product passes 2^63 and the conversion raises FE_INVALID on this thread;
                //  and the sticky floating-point exception flags are all raised, as an application doing its own arithmetic may leave them)
                const int mag = (round & 1) ? 30 : 20; if (round & 1) feraiseexcept(FE_ALL_EXCEPT);
                for (int j = 0; j < N; j++) { A->coefs[j] = (j & 1) ? (1 << mag) : -(1 << mag); B->coefsT[j] = (j & 1) ? INT32_MIN : INT32_MAX; }
                torusPolynomialMultFFT(R, A, B); delete_TorusPolynomial(R); delete_TorusPolynomial(B); delete_IntPolynomial(A); }
            const Work &wk = ws[(i + round) % 6]; eval_work(wk, o, n); evals++;
            if (o != wk.ref) mism++;
        }
    }
    // a fresh thread (fresh thread-local processor) must give the same answers
    std::thread t([&]() { for (int i = 0; i < 6; i++) { std::vector<int32_t> o; eval_work(ws[i], o, n); evals++; if (o != ws[i].ref) mism++; } }); t.join();
    r.push_back(mism); r.push_back(evals);
}
// poison <spec> seed : the scratch buffers of the calling thread's FFT processor are overwritten (NaN, huge values, random bits)
// before every evaluation; a transform that reads a scratch cell it has not written first would give a different answer
static void fillbuf(double *p, size_t n, int pattern, std::mt19937 &rg) {
    for (size_t i = 0; i < n; i++) {
        if (pattern == 0) p[i] = std::nan("");
        else if (pattern == 1) p[i] = (i & 1) ? 1e300 : -1e300;
        else { uint64_t w = ((uint64_t) rg() << 32) | rg(); memcpy(&p[i], &w, 8); }
    }
}
static int poison_scratch(int pattern, std::mt19937 &rg) {
#if defined(FAM_SPQLIOS)
    fillbuf(fftp1024.real_inout_direct, fftp1024.N, pattern, rg); fillbuf(fftp1024.real_inout_rev, fftp1024.N, pattern, rg); return 1;
#elif defined(FAM_NAYUKI)
    fillbuf(fp1024_nayuki.real_inout, fp1024_nayuki._2N, pattern, rg); fillbuf(fp1024_nayuki.imag_inout, fp1024_nayuki._2N, pattern, rg); return 1;
#elif defined(FAM_FFTW)
    fillbuf(fp1024_fftw.rev_in, fp1024_fftw._2N, pattern, rg); fillbuf(fp1024_fftw.out, fp1024_fftw._2N, pattern, rg);
    fillbuf((double *) fp1024_fftw.rev_out, 2 * (fp1024_fftw.N + 1), pattern, rg); fillbuf((double *) fp1024_fftw.in, 2 * (fp1024_fftw.N + 1), pattern, rg); return 1;
#else
    (void) pattern; (void) rg; return 0;
#endif
}
static void op_poison(const V &a, V &r) {
    need_keys(a);
    const int n = cur.params->in_out_params->n; const ll *v = a.data() + SPECN;
    std::vector<Work> ws; make_work(ws, 6, n, (unsigned) v[0]);
    for (auto &wk : ws) eval_work(wk, wk.ref, n);
    long mism = 0, evals = 0, avail = 0; std::mt19937 rg((unsigned) v[0] + 9);
    for (int pattern = 0; pattern < 3; pattern++) for (int i = 0; i < 6; i++) {
        avail = poison_scratch(pattern, rg);
        std::vector<int32_t> o; eval_work(ws[i], o, n); evals++;
        if (o != ws[i].ref) mism++;
    }
    // plain FFT products as well
    const int N = 1024; IntPolynomial *A = new_IntPolynomial(N); TorusPolynomial *B = new_TorusPolynomial(N), *R1 = new_TorusPolynomial(N), *R2 = new_TorusPolynomial(N);
    for (int j = 0; j < N; j++) { A->coefs[j] = (int32_t) (rg() % 1024) - 512; B->coefsT[j] = (int32_t) rg(); }
    torusPolynomialMultFFT(R1, A, B);
    for (int pattern = 0; pattern < 3; pattern++) { poison_scratch(pattern, rg); torusPolynomialMultFFT(R2, A, B); evals++; if (memcmp(R1->coefsT, R2->coefsT, 4 * N)) mism++; }
    delete_TorusPolynomial(R2); delete_TorusPolynomial(R1); delete_TorusPolynomial(B); delete_IntPolynomial(A);
    r.push_back(mism); r.push_back(evals); r.push_back(avail);
}
// footprint: bytes of libtfhe's writable segments changed by a batch of evaluations after a warm-up
struct Seg { char *p; size_t n; };
static std::vector<Seg> segs;
static int phdr_cb(struct dl_phdr_info *info, size_t, void *) {
    if (!info->dlpi_name || !strstr(info->dlpi_name, "libtfhe")) return 0;
    for (int i = 0; i < info->dlpi_phnum; i++) { const ElfW(Phdr) &ph = info->dlpi_phdr[i];
        if (ph.p_type == PT_LOAD && (ph.p_flags & PF_W)) segs.push_back({(char *) (info->dlpi_addr + ph.p_vaddr), (size_t) ph.p_memsz}); }
    return 0;
}
static void op_footprint(const V &a, V &r) {
    need_keys(a);
    const int n = cur.params->in_out_params->n;
    std::vector<Work> ws; make_work(ws, 8, n, 99);
    for (auto &wk : ws) eval_work(wk, wk.ref, n);          // warm-up: init-once constants, thread-local processor
    unrelated_fft(1, 1);
    segs.clear(); dl_iterate_phdr(phdr_cb, 0);
    std::vector<std::string> before; size_t total = 0;
    for (auto &s : segs) { before.emplace_back(s.p, s.n); total += s.n; }
    for (auto &wk : ws) { std::vector<int32_t> o; eval_work(wk, o, n); }
    unrelated_fft(2, 2);
    long changed = 0;
    for (size_t i = 0; i < segs.size(); i++) for (size_t j = 0; j < segs[i].n; j++) if (before[i][j] != segs[i].p[j]) changed++;
    r.push_back(changed); r.push_back((ll) total); r.push_back((ll) segs.size());
}

int main() {
    std::string line;
    while (std::getline(std::cin, line)) {
        const char *s = line.c_str(); while (*s == ' ') s++;
        const char *e = s; while (*e && *e != ' ') e++;
        std::string op(s, e - s);
        if (op.empty()) { putchar('\n'); fflush(stdout); continue; }
        V a; char *q = (char *) e;
        for (;;) { while (*q == ' ') q++; if (!*q) break; char *nx; ll x = strtoll(q, &nx, 10); if (nx == q) break; a.push_back(x); q = nx; }
        V r;
        if (op == "alias") op_alias(a, r);
        else if (op == "frame") op_frame(a, r);
        else if (op == "threads") op_threads(a, r);
        else if (op == "keythread") op_keythread(a, r);
        else if (op == "refhash") op_refhash(a, r);
        else if (op == "nomain") op_nomain(a, r);
        else if (op == "handover") op_handover(a, r);
        else if (op == "churn") op_churn(a, r);
        else if (op == "x87") op_x87(a, r);
        else if (op == "history") op_history(a, r);
        else if (op == "footprint") op_footprint(a, r);
        else if (op == "poison") op_poison(a, r);
        else { puts("NOOP"); fflush(stdout); continue; }
        out(r);
    }
    return 0;
}
