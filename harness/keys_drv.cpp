// harness/keys_drv.cpp — full-size key-set checks through the public API (C05 functional part, C17).
//   keyio seed lambda n l Bgbit t basebit transport ngates
//     lambda > 0: default parameter set for that lambda; otherwise a custom set (N = 1024, k = 1) with the given n,l,Bgbit,t,basebit
//   prints: cloud_len secret_len cloud_is_prefix tail_len param_text_len n N k l t basebit
//           secret_found_in_cloud reexport_cloud_equal reexport_secret_equal gates_equal decrypt_equal
//           reimported_fields_equal cloud_has_no_secret_fields
#include <cstdio>
#include <cstdlib>
#include <cstring>
#include <string>
#include <vector>
#include <sstream>
#include <iostream>
#include "tfhe.h"
#include "tfhe_io.h"
typedef long long ll;

static std::string slurp(FILE *F) { fflush(F); long n = ftell(F); rewind(F); std::string s(n, 0); if (n && fread(&s[0], 1, n, F) != (size_t) n) abort(); return s; }
static std::string exp_cloud(const TFheGateBootstrappingCloudKeySet *ck, int tr) {
    if (tr == 1) { std::ostringstream os; export_tfheGateBootstrappingCloudKeySet_toStream(os, ck); return os.str(); }
    FILE *F = tmpfile(); export_tfheGateBootstrappingCloudKeySet_toFile(F, ck); std::string s = slurp(F); fclose(F); return s;
}
static std::string exp_secret(const TFheGateBootstrappingSecretKeySet *sk, int tr) {
    if (tr == 1) { std::ostringstream os; export_tfheGateBootstrappingSecretKeySet_toStream(os, sk); return os.str(); }
    FILE *F = tmpfile(); export_tfheGateBootstrappingSecretKeySet_toFile(F, sk); std::string s = slurp(F); fclose(F); return s;
}
static std::string exp_params(const TFheGateBootstrappingParameterSet *p) { std::ostringstream os; export_tfheGateBootstrappingParameterSet_toStream(os, p); return os.str(); }
static TFheGateBootstrappingCloudKeySet *imp_cloud(const std::string &b, int tr) {
    if (tr == 1) { std::istringstream is(b); return new_tfheGateBootstrappingCloudKeySet_fromStream(is); }
    FILE *F = tmpfile(); fwrite(b.data(), 1, b.size(), F); rewind(F); TFheGateBootstrappingCloudKeySet *r = new_tfheGateBootstrappingCloudKeySet_fromFile(F); fclose(F); return r;
}
static TFheGateBootstrappingSecretKeySet *imp_secret(const std::string &b, int tr) {
    if (tr == 1) { std::istringstream is(b); return new_tfheGateBootstrappingSecretKeySet_fromStream(is); }
    FILE *F = tmpfile(); fwrite(b.data(), 1, b.size(), F); rewind(F); TFheGateBootstrappingSecretKeySet *r = new_tfheGateBootstrappingSecretKeySet_fromFile(F); fclose(F); return r;
}
// a key encoding is searched for only when it is distinctive: at least 8 non-zero bytes.  A needle that is almost all zeros (tiny n, or
// a key with very few ones) also matches inside the all-zero rows of a key-switching key at unaligned offsets (the byte before a zero
// row is arbitrary), which says nothing about the secret key
static bool contains(const std::string &hay, const std::string &needle) {
    size_t nz = 0; for (unsigned char c : needle) if (c) nz++;
    return nz >= 8 && hay.find(needle) != std::string::npos;
}
static std::string raw32(const int32_t *p, size_t n) { return std::string((const char *) p, n * 4); }
static std::string ctbytes(const LweSample *s, int n) { std::string r((const char *) s->a, n * 4); r.append((const char *) &s->b, 4); r.append((const char *) &s->current_variance, sizeof(double)); return r; }   // the whole ciphertext: mask, body, variance annotation

int main() {
    std::string line;
    while (std::getline(std::cin, line)) {
        std::istringstream is(line); std::string op; if (!(is >> op)) { puts(""); fflush(stdout); continue; }
        std::vector<ll> a; ll x; while (is >> x) a.push_back(x);
        if (op != "keyio") { puts("NOOP"); fflush(stdout); continue; }
        uint32_t seed = (uint32_t) a[0]; int lambda = a[1], tr = a[7], ngates = a[8];
        tfhe_random_generator_setSeed(&seed, 1);
        TFheGateBootstrappingParameterSet *params;
        if (lambda > 0) params = new_default_gate_bootstrapping_parameters(lambda);
        else {
            LweParams *lp = new_LweParams((int) a[2], pow(2., -15), 0.012467);
            TLweParams *tp = new_TLweParams(1024, 1, pow(2., -25), 0.012467);
            TGswParams *gp = new_TGswParams((int) a[3], (int) a[4], tp);
            params = new TFheGateBootstrappingParameterSet((int) a[5], (int) a[6], lp, gp);
        }
        TFheGateBootstrappingSecretKeySet *sk = new_random_gate_bootstrapping_secret_keyset(params);
        const int n = params->in_out_params->n, N = params->tgsw_params->tlwe_params->N, k = params->tgsw_params->tlwe_params->k;
        std::string cb = exp_cloud(&sk->cloud, tr), sb = exp_secret(sk, tr), pb = exp_params(params);
        bool prefix = sb.size() > cb.size() && sb.compare(0, cb.size(), cb) == 0;
        // every encoding the library uses for the secret keys: raw int32 arrays (as the key sections write them), the extracted key
        bool found = false;
        found |= contains(cb, raw32(sk->lwe_key->key, n));
        for (int i = 0; i < k; i++) found |= contains(cb, raw32(sk->tgsw_key->key[i].coefs, N));
        { int32_t uid = 43; std::string tagged((const char *) &uid, 4); tagged += raw32(sk->lwe_key->key, n); found |= contains(cb, tagged); }
        { int32_t uid = 169; std::string tagged((const char *) &uid, 4); tagged += raw32(sk->tgsw_key->key[0].coefs, N); found |= contains(cb, tagged); }
        if (n >= 16) found |= contains(cb, raw32(sk->lwe_key->key, 16)) && false;   // 16-word windows of a binary key do occur by chance in ciphertext-free zones: not used
        TFheGateBootstrappingCloudKeySet *ck2 = imp_cloud(cb, tr);
        TFheGateBootstrappingSecretKeySet *sk2 = imp_secret(sb, tr);
        // unencrypted values: a sample of the re-imported cloud key (i.e. of the exported bytes) whose mask is identically zero
        // carries its message in the clear; in a generated key only the all-zero sample may look like that
        long clear = 0, unmasked = 0;     // unmasked: rows that must be fresh encryptions (h >= 1; every bootstrapping-key row) with an all-zero mask
        {
            const LweKeySwitchKey *ks2 = ck2->bk->ks; const long nrows = (long) ks2->n * ks2->t * ks2->base;
            for (long r = 0; r < nrows; r++) { const LweSample *row = &ks2->ks0_raw[r]; bool z = true; for (int i = 0; i < n && z; i++) z = row->a[i] == 0; if (z && row->b != 0) clear++; if (z && (r % ks2->base) != 0) unmasked++; }
            const TGswParams *gp = ck2->bk->bk_params; const int kpl = gp->kpl;
            for (int i = 0; i < n; i++) for (int q = 0; q < kpl; q++) { const TLweSample *row = &ck2->bk->bk[i].all_sample[q]; bool z = true;
                for (int u = 0; u < k && z; u++) for (int j = 0; j < N && z; j++) z = row->a[u].coefsT[j] == 0;
                bool bz = true; for (int j = 0; j < N && bz; j++) bz = row->a[k].coefsT[j] == 0;
                if (z && !bz) clear++; if (z) unmasked++; }
        }
        bool re_c = exp_cloud(ck2, tr) == cb, re_s = exp_secret(sk2, tr) == sb;
        // both transports must write the same bytes
        bool cross = exp_cloud(&sk->cloud, 1 - tr) == cb;
        // evaluation under the original and the re-imported cloud key, decryption under both secret keys
        bool gates_eq = true, dec_eq = true, dec_ok = true;
        LweSample *in = new_gate_bootstrapping_ciphertext_array(3, params), *o1 = new_gate_bootstrapping_ciphertext(params), *o2 = new_gate_bootstrapping_ciphertext(params);
        for (int g = 0; g < ngates; g++) {
            int b0 = (g >> 0) & 1, b1 = (g >> 1) & 1, b2 = (g >> 2) & 1;
            bootsSymEncrypt(in + 0, b0, sk); bootsSymEncrypt(in + 1, b1, sk); bootsSymEncrypt(in + 2, b2, sk);
            int expect;
            switch (g % 4) {
                case 0: bootsNAND(o1, in, in + 1, &sk->cloud); bootsNAND(o2, in, in + 1, ck2); expect = !(b0 && b1); break;
                case 1: bootsXOR(o1, in, in + 1, &sk->cloud); bootsXOR(o2, in, in + 1, ck2); expect = b0 ^ b1; break;
                case 2: bootsMUX(o1, in, in + 1, in + 2, &sk->cloud); bootsMUX(o2, in, in + 1, in + 2, ck2); expect = b0 ? b1 : b2; break;
                default: bootsOR(o1, in, in + 1, &sk->cloud); bootsOR(o2, in, in + 1, &sk2->cloud); expect = b0 | b1; break;
            }
            if (ctbytes(o1, n) != ctbytes(o2, n)) gates_eq = false;
            int d1 = bootsSymDecrypt(o1, sk), d2 = bootsSymDecrypt(o1, sk2);
            if (d1 != d2) dec_eq = false;
            if (d1 != expect) dec_ok = false;
        }
        // field-for-field equality of the re-imported secret key set
        bool fields = true;
        for (int i = 0; i < n; i++) if (sk2->lwe_key->key[i] != sk->lwe_key->key[i]) fields = false;
        for (int i = 0; i < k; i++) for (int j = 0; j < N; j++) if (sk2->tgsw_key->key[i].coefs[j] != sk->tgsw_key->key[i].coefs[j]) fields = false;
        const TFheGateBootstrappingParameterSet *p2 = sk2->params;
        if (p2->ks_t != params->ks_t || p2->ks_basebit != params->ks_basebit || p2->in_out_params->n != n || p2->in_out_params->alpha_min != params->in_out_params->alpha_min
            || p2->in_out_params->alpha_max != params->in_out_params->alpha_max || p2->tgsw_params->l != params->tgsw_params->l || p2->tgsw_params->Bgbit != params->tgsw_params->Bgbit
            || p2->tgsw_params->tlwe_params->alpha_min != params->tgsw_params->tlwe_params->alpha_min || p2->tgsw_params->tlwe_params->alpha_max != params->tgsw_params->tlwe_params->alpha_max
            || p2->tgsw_params->tlwe_params->N != N || p2->tgsw_params->tlwe_params->k != k) fields = false;
        // noise of the public rows must not depend on the secret: error of the body-block rows of every bootstrapping-key sample of the
        // exported key (phase under the ring key minus s_i*h_j at coefficient 0), pooled by the value of the encrypted key bit;
        // and of the key-switching rows (h >= 1) pooled by the value of the ring-key coefficient they encode
        // every row that is a fresh encryption has its own mask: consecutive key-switching rows (h >= 1) and consecutive bootstrapping-key
        // rows never share one
        long dupmask = 0;
        { const LweKeySwitchKey *ks2 = ck2->bk->ks; const long nrows = (long) ks2->n * ks2->t * ks2->base;
          for (long r = 1; r < nrows; r++) if ((r % ks2->base) != 0 && ((r - 1) % ks2->base) != 0 && memcmp(ks2->ks0_raw[r].a, ks2->ks0_raw[r - 1].a, 4 * (size_t) n) == 0) dupmask++;
          const TGswParams *gp = ck2->bk->bk_params;
          for (int i = 0; i < n; i++) for (int q = 1; q < gp->kpl; q++) { bool same = true;
              for (int u = 0; u < k && same; u++) same = memcmp(ck2->bk->bk[i].all_sample[q].a[u].coefsT, ck2->bk->bk[i].all_sample[q - 1].a[u].coefsT, 4 * (size_t) N) == 0;
              if (same) dupmask++; } }
        long double q0 = 0, q1 = 0, r0 = 0, r1 = 0; long c0 = 0, c1 = 0, d0 = 0, d1 = 0; long double corr_z = 0; int corr_pair = 0;
        {
            const TGswParams *gp = ck2->bk->bk_params; const int l = gp->l;
            TorusPolynomial *ph = new_TorusPolynomial(N);
            for (int i = 0; i < n; i++) for (int j = 0; j < l; j++) {
                tLwePhase(ph, &ck2->bk->bk[i].all_sample[k * l + j], &sk->tgsw_key->tlwe_key);
                ph->coefsT[0] -= sk->lwe_key->key[i] * gp->h[j];
                for (int c = 0; c < N; c++) { long double e = (long double) ph->coefsT[c]; if (sk->lwe_key->key[i]) { q1 += e * e; c1++; } else { q0 += e * e; c0++; } }
            }
            delete_TorusPolynomial(ph);
            const LweKeySwitchKey *ks2 = ck2->bk->ks; const int base = ks2->base, t = ks2->t, bb = ks2->basebit;
            for (int i = 0; i < ks2->n; i++) { int si = sk->tgsw_key->key[i / N].coefs[i % N];
                for (int j = 0; j < t; j++) for (int h = 1; h < base; h++) {
                    int32_t e32 = lwePhase(&ks2->ks[i][j][h], sk->lwe_key) - (int32_t) ((uint32_t) (si * h) << (32 - (j + 1) * bb));
                    long double e = (long double) e32; if (si) { r1 += e * e; d1++; } else { r0 += e * e; d0++; } } }
            // errors of two rows of one block (i,j) must be independent draws: correlation over all blocks, for every pair of rows that are
            // not the trivial sample (0,0) - rows that share their noise differ by an unencrypted multiple of the key coefficient
            const int PB = base < 8 ? base : 8; std::vector<long double> sxy(PB * PB, 0), sxx(PB * PB, 0), syy(PB * PB, 0); std::vector<long> cnt(PB * PB, 0);
            for (int i = 0; i < ks2->n; i++) { int si = sk->tgsw_key->key[i / N].coefs[i % N];
                for (int j = 0; j < t; j++) { long double e[8]; bool real[8];
                    for (int h = 0; h < PB; h++) { const LweSample *row = &ks2->ks[i][j][h]; bool zero = row->b == 0; for (int q = 0; q < n && zero; q++) if (row->a[q]) zero = false;
                        real[h] = !zero; e[h] = (long double) (int32_t) (lwePhase(row, sk->lwe_key) - (int32_t) ((uint32_t) (si * h) << (32 - (j + 1) * bb))); }
                    for (int h = 0; h < PB; h++) for (int g = h + 1; g < PB; g++) if (real[h] && real[g]) { sxy[h * PB + g] += e[h] * e[g]; sxx[h * PB + g] += e[h] * e[h]; syy[h * PB + g] += e[g] * e[g]; cnt[h * PB + g]++; } } }
            for (int h = 0; h < PB; h++) for (int g = h + 1; g < PB; g++) { long c = cnt[h * PB + g]; if (c < 200) continue;
                long double den = sqrtl(sxx[h * PB + g] * syy[h * PB + g]); long double z = den > 0 ? fabsl(sxy[h * PB + g] / den) * sqrtl((long double) c) : 0;
                if (sxx[h * PB + g] == 0 && syy[h * PB + g] == 0) z = 0;       // both noiseless (alpha = 0 sets): nothing to correlate
                if (z > corr_z) { corr_z = z; corr_pair = h * 10 + g; } }
        }
        uint64_t hcb = 1469598103934665603ull; for (unsigned char ch : cb) { hcb ^= ch; hcb *= 1099511628211ull; }   // FNV-1a of the exported cloud key
        printf("%zu %zu %d %zu %zu %d %d %d %d %d %d %d %d %d %d %d %d %d %d %ld %ld %ld %.0Lf %ld %.0Lf %ld %.0Lf %ld %.0Lf %ld %.0f %.0f %u %u %u %u %.0Lf %d\n", cb.size(), sb.size(), prefix ? 1 : 0, sb.size() - cb.size(), pb.size(), n, N, k,
               params->tgsw_params->l, params->ks_t, params->ks_basebit, found ? 1 : 0, re_c ? 1 : 0, re_s ? 1 : 0, gates_eq ? 1 : 0, dec_eq ? 1 : 0, fields ? 1 : 0, cross ? 1 : 0, dec_ok ? 1 : 0, clear, unmasked, c0, c0 ? sqrtl(q0 / c0) : 0.0L, c1, c1 ? sqrtl(q1 / c1) : 0.0L, d0, d0 ? sqrtl(r0 / d0) : 0.0L, d1, d1 ? sqrtl(r1 / d1) : 0.0L, dupmask, params->tgsw_params->tlwe_params->alpha_min * 4294967296., params->in_out_params->alpha_min * 4294967296.,
               (unsigned) (hcb & 0xFFFF), (unsigned) ((hcb >> 16) & 0xFFFF), (unsigned) ((hcb >> 32) & 0xFFFF), (unsigned) ((hcb >> 48) & 0xFFFF), corr_z * 100, corr_pair);
        fflush(stdout);
        delete_gate_bootstrapping_ciphertext(o2); delete_gate_bootstrapping_ciphertext(o1); delete_gate_bootstrapping_ciphertext_array(3, in);
        delete_gate_bootstrapping_secret_keyset(sk2); delete_gate_bootstrapping_cloud_keyset(ck2); delete_gate_bootstrapping_secret_keyset(sk);
    }
    return 0;
}
