// harness/boot_drv.cpp — implementation-side driver for TGSW / bootstrapping / gates / circuits
// (C09, C04, C01, C02, C03 ring part).  Mirrors the model entries "tgsw", "boot", "gatelin" ...:
// a case line carries all data (rows of the TGSW samples, accumulator, exponents); opcode + 100 selects
// the FFT-domain variant of the same operation.  Key-set operations cache the last key set by its spec.
#include <cstdio>
#include <cstdlib>
#include <cstring>
#include <cmath>
#include <string>
#include <vector>
#include <sstream>
#include <iostream>
#include <random>
#include "tfhe.h"
#include "tfhe_io.h"
#include "polynomials_arithmetic.h"
#include "lwe-functions.h"
#include "tlwe_functions.h"
#include "tgsw_functions.h"
#include "numeric_functions.h"
#include <pthread.h>
#include "guard_new.h"
static int g_stack_kib = 0;
static int g_guard = 0;   // op "guard 1": ciphertexts and temporaries of gatecase/netlist/tgsw/boot end at inaccessible pages (keys stay on the ordinary heap)

typedef long long ll;
typedef std::vector<ll> V;

void tfhe_MuxRotate(TLweSample *result, const TLweSample *accum, const TGswSample *bki, const int32_t barai, const TGswParams *bk_params);
void tfhe_MuxRotate_FFT(TLweSample *result, const TLweSample *accum, const TGswSampleFFT *bki, const int32_t barai, const TGswParams *bk_params);

static void out(const V &r) {
    std::string s; s.reserve(r.size() * 8);
    char buf[32];
    for (size_t i = 0; i < r.size(); i++) { if (i) s.push_back(' '); snprintf(buf, sizeof buf, "%lld", r[i]); s += buf; }
    s.push_back('\n'); fwrite(s.data(), 1, s.size(), stdout); fflush(stdout);
}

struct RP {  // ring parameters
    int k, N, l, B; TLweParams *tp; TGswParams *gp;
    RP(int k, int N, int l, int B, double a = 0.) : k(k), N(N), l(l), B(B) { tp = new_TLweParams(N, k, a, 0.25); gp = new_TGswParams(l, B, tp); }
    ~RP() { delete_TGswParams(gp); delete_TLweParams(tp); }
    int kpl() const { return (k + 1) * l; }
    size_t rowsz() const { return (size_t) (k + 1) * N; }
    size_t gswsz() const { return (size_t) kpl() * rowsz(); }
};
static void fill_tlwe(TLweSample *s, const RP &p, const ll *v) {
    for (int i = 0; i <= p.k; i++) for (int j = 0; j < p.N; j++) s->a[i].coefsT[j] = (int32_t) v[(size_t) i * p.N + j];
    s->current_variance = 0;
}
static void dump_tlwe(const TLweSample *s, const RP &p, V &r) {
    for (int i = 0; i <= p.k; i++) for (int j = 0; j < p.N; j++) r.push_back(s->a[i].coefsT[j]);
}
static void fill_tgsw(TGswSample *g, const RP &p, const ll *v) {
    for (int q = 0; q < p.kpl(); q++) fill_tlwe(&g->all_sample[q], p, v + (size_t) q * p.rowsz());
}
static void dump_tgsw(const TGswSample *g, const RP &p, V &r) {
    for (int q = 0; q < p.kpl(); q++) dump_tlwe(&g->all_sample[q], p, r);
}
static void dump_lwe(const LweSample *s, int n, V &r) { for (int i = 0; i < n; i++) r.push_back(s->a[i]); r.push_back(s->b); }

// ---- tgsw: opc k N l B ... ----
static void op_tgsw(const V &a, V &r) {
    vguard::Scope gs(g_guard);
    int opc = a[0] % 100; bool fft = a[0] >= 100;
    RP p(a[1], a[2], a[3], a[4]);
    const ll *v = a.data() + 5;
    TGswSample *g = new_TGswSample(p.gp);
    if (opc == 1) {
        IntPolynomial *mu = new_IntPolynomial(p.N);
        for (int j = 0; j < p.N; j++) mu->coefs[j] = (int32_t) v[j];
        tGswNoiselessTrivial(g, mu, p.gp); dump_tgsw(g, p, r);
        delete_IntPolynomial(mu); delete_TGswSample(g); return;
    }
    fill_tgsw(g, p, v); v += p.gswsz();
    if (opc == 0) {
        TLweSample *acc = new_TLweSample(p.tp); fill_tlwe(acc, p, v);
        if (fft) { TGswSampleFFT *gf = new_TGswSampleFFT(p.gp); tGswToFFTConvert(gf, g, p.gp); tGswFFTExternMulToTLwe(acc, gf, p.gp); delete_TGswSampleFFT(gf); }
        else tGswExternMulToTLwe(acc, g, p.gp);
        dump_tlwe(acc, p, r); delete_TLweSample(acc);
    } else if (opc == 2) {
        IntPolynomial *mu = new_IntPolynomial(p.N);
        for (int j = 0; j < p.N; j++) mu->coefs[j] = (int32_t) v[j];
        tGswAddMuH(g, mu, p.gp); dump_tgsw(g, p, r); delete_IntPolynomial(mu);
    } else if (opc == 3) { tGswAddMuIntH(g, (int32_t) v[0], p.gp); dump_tgsw(g, p, r); }
    else if (opc == 4) {
        TGswKey *key = new_TGswKey(p.gp);
        for (int i = 0; i < p.k; i++) for (int j = 0; j < p.N; j++) key->tlwe_key.key[i].coefs[j] = (int32_t) v[(size_t) i * p.N + j];
        IntPolynomial *res = new_IntPolynomial(p.N);
        tGswSymDecrypt(res, g, key, (int32_t) v[(size_t) p.k * p.N]);
        for (int j = 0; j < p.N; j++) r.push_back(res->coefs[j]);
        delete_IntPolynomial(res); delete_TGswKey(key);
    } else if (opc == 6) {   // tGswExternProduct: out of place; the accumulator is an input
        TLweSample *acc = new_TLweSample(p.tp), *res = new_TLweSample(p.tp); fill_tlwe(acc, p, v);
        for (int i = 0; i <= p.k; i++) for (int j = 0; j < p.N; j++) res->a[i].coefsT[j] = 0x1234567;
        tGswExternProduct(res, g, acc, p.gp); dump_tlwe(res, p, r);
        bool same = true; for (int i = 0; i <= p.k; i++) for (int j = 0; j < p.N; j++) if (acc->a[i].coefsT[j] != (int32_t) v[(size_t) i * p.N + j]) same = false;
        r.push_back(same ? 1 : 0); delete_TLweSample(res); delete_TLweSample(acc);
    } else if (opc == 7) {   // tGswMulByXaiMinusOne
        TGswSample *g2 = new_TGswSample(p.gp); tGswMulByXaiMinusOne(g2, (int32_t) v[0], g, p.gp); dump_tgsw(g2, p, r); delete_TGswSample(g2);
    } else if (opc == 8) {   // tGswClear then tGswAddH: the gadget of the message 1
        tGswClear(g, p.gp); tGswAddH(g, p.gp); dump_tgsw(g, p, r);
    } else if (opc == 9) {   // the same in the FFT domain, converted back
        TGswSampleFFT *gf = new_TGswSampleFFT(p.gp); tGswFFTClear(gf, p.gp); tGswFFTAddH(gf, p.gp); tGswFromFFTConvert(g, gf, p.gp); dump_tgsw(g, p, r); delete_TGswSampleFFT(gf);
    } else if (opc == 12 || opc == 13) {   // tGswAddH on the given (non-zero) sample: coefficient domain / through the FFT domain and back
        if (opc == 12) tGswAddH(g, p.gp);
        else { TGswSampleFFT *gf = new_TGswSampleFFT(p.gp); tGswToFFTConvert(gf, g, p.gp); tGswFFTAddH(gf, p.gp); tGswFromFFTConvert(g, gf, p.gp); delete_TGswSampleFFT(gf); }
        dump_tgsw(g, p, r);
    } else if (opc == 10 || opc == 11) {   // acc += poly * row 0 of g, component-wise: tLweAddMulRTo / through tLweFFTAddMulRTo
        TLweSample *acc = new_TLweSample(p.tp); fill_tlwe(acc, p, v); const ll *w = v + p.rowsz();
        IntPolynomial *ip = new_IntPolynomial(p.N); for (int j = 0; j < p.N; j++) ip->coefs[j] = (int32_t) w[j];
        if (opc == 10) tLweAddMulRTo(acc, ip, &g->all_sample[0], p.tp);
        else {
            TLweSampleFFT *af = new_TLweSampleFFT(p.tp), *sf = new_TLweSampleFFT(p.tp); LagrangeHalfCPolynomial *pf = new_LagrangeHalfCPolynomial(p.N);
            TLweSample *tmp = new_TLweSample(p.tp);
            tLweToFFTConvert(sf, &g->all_sample[0], p.tp); IntPolynomial_ifft(pf, ip); tLweFFTClear(af, p.tp); tLweFFTAddMulRTo(af, pf, sf, p.tp);
            tLweFromFFTConvert(tmp, af, p.tp); tLweAddTo(acc, tmp, p.tp);
            delete_TLweSample(tmp); delete_LagrangeHalfCPolynomial(pf); delete_TLweSampleFFT(sf); delete_TLweSampleFFT(af);
        }
        dump_tlwe(acc, p, r); delete_IntPolynomial(ip); delete_TLweSample(acc);
    } else if (opc == 5) {   // FFT image of the rows, converted back
        TGswSampleFFT *gf = new_TGswSampleFFT(p.gp); TGswSample *g2 = new_TGswSample(p.gp);
        tGswToFFTConvert(gf, g, p.gp); tGswFromFFTConvert(g2, gf, p.gp); dump_tgsw(g2, p, r);
        delete_TGswSample(g2); delete_TGswSampleFFT(gf);
    }
    delete_TGswSample(g);
}

// ---- boot: opc k N l B n bk... ----
static void op_boot(const V &a, V &r) {
    vguard::Scope gs(g_guard);
    int opc = a[0] % 100; bool fft = a[0] >= 100;
    RP p(a[1], a[2], a[3], a[4]); int n = a[5];
    const ll *v = a.data() + 6;
    LweParams *lp = new_LweParams(n, 0., 0.25);
    LweBootstrappingKey *bk = new_LweBootstrappingKey(1, 1, lp, p.gp);
    for (int i = 0; i < n; i++) fill_tgsw(&bk->bk[i], p, v + (size_t) i * p.gswsz());
    // the key-switching part is not used by these operations; give it defined contents
    for (int i = 0; i < p.k * p.N; i++) for (int h = 0; h < 2; h++) lweClear(&bk->ks->ks[i][0][h], lp);
    v += (size_t) n * p.gswsz();
    LweBootstrappingKeyFFT *bf = fft ? new_LweBootstrappingKeyFFT(bk) : 0;
    const int nx = p.k * p.N;
    if (opc == 0 || opc == 3) {
        std::vector<int32_t> bara(std::max(n, 1));
        int m = (opc == 0) ? n : 1;
        for (int i = 0; i < m; i++) bara[i] = (int32_t) v[i];
        TLweSample *acc = new_TLweSample(p.tp); fill_tlwe(acc, p, v + m);
        if (opc == 0) { if (fft) tfhe_blindRotate_FFT(acc, bf->bkFFT, bara.data(), n, p.gp); else tfhe_blindRotate(acc, bk->bk, bara.data(), n, p.gp); dump_tlwe(acc, p, r); }
        else { TLweSample *res = new_TLweSample(p.tp);
            if (fft) tfhe_MuxRotate_FFT(res, acc, bf->bkFFT, bara[0], p.gp); else tfhe_MuxRotate(res, acc, bk->bk, bara[0], p.gp);
            dump_tlwe(res, p, r); delete_TLweSample(res); }
        delete_TLweSample(acc);
    } else if (opc == 1) {
        int32_t barb = (int32_t) v[0]; std::vector<int32_t> bara(std::max(n, 1));
        for (int i = 0; i < n; i++) bara[i] = (int32_t) v[1 + i];
        TorusPolynomial *tv = new_TorusPolynomial(p.N);
        for (int j = 0; j < p.N; j++) tv->coefsT[j] = (int32_t) v[1 + n + j];
        LweSample *res = new_LweSample(&p.tp->extracted_lweparams);
        if (fft) tfhe_blindRotateAndExtract_FFT(res, tv, bf->bkFFT, barb, bara.data(), n, p.gp);
        else tfhe_blindRotateAndExtract(res, tv, bk->bk, barb, bara.data(), n, p.gp);
        dump_lwe(res, nx, r);
        // the test polynomial is an input: it must come back unchanged
        for (int j = 0; j < p.N; j++) if (tv->coefsT[j] != (int32_t) v[1 + n + j]) { r.clear(); r.push_back(-7); r.push_back(-7); break; }
        delete_LweSample(res); delete_TorusPolynomial(tv);
    } else if (opc == 2) {
        int32_t mu = (int32_t) v[0];
        LweSample *x = new_LweSample(lp); for (int i = 0; i < n; i++) x->a[i] = (int32_t) v[1 + i]; x->b = (int32_t) v[1 + n];
        LweSample *res = new_LweSample(&p.tp->extracted_lweparams);
        if (fft) tfhe_bootstrap_woKS_FFT(res, bf, mu, x); else tfhe_bootstrap_woKS(res, bk, mu, x);
        dump_lwe(res, nx, r);
        delete_LweSample(res); delete_LweSample(x);
    }
    if (bf) delete_LweBootstrappingKeyFFT(bf);
    delete_LweBootstrappingKey(bk); delete_LweParams(lp);
}

// ---- bkgen n k N l B alpha_units(2^-40) seed -> s(n) tlwe key(k*N) bk flat ----
static void op_bkgen(const V &a, V &r) {
    int n = a[0]; RP p(a[1], a[2], a[3], a[4], ldexp((double) a[5], -40)); uint32_t seed = (uint32_t) a[6];
    tfhe_random_generator_setSeed(&seed, 1);
    LweParams *lp = new_LweParams(n, 0., 0.25);
    LweKey *lk = new_LweKey(lp); lweKeyGen(lk);
    TGswKey *gk = new_TGswKey(p.gp); tGswKeyGen(gk);
    for (int i = 0; i < n; i++) r.push_back(lk->key[i]);
    for (int i = 0; i < p.k; i++) for (int j = 0; j < p.N; j++) r.push_back(gk->tlwe_key.key[i].coefs[j]);
    TGswSample *g = new_TGswSample(p.gp);
    for (int i = 0; i < n; i++) { tGswSymEncryptInt(g, lk->key[i], ldexp((double) a[5], -40), gk); dump_tgsw(g, p, r); }
    delete_TGswSample(g); delete_TGswKey(gk); delete_LweKey(lk); delete_LweParams(lp);
}

#include "keys_common.h"
// fullkey spec -> n N k l B t bb, then s(n)
static void op_fullkey(const V &a, V &r) {
    need_keys(a);
    const TFheGateBootstrappingParameterSet *P = cur.params;
    const int n = P->in_out_params->n;
    r.push_back(n); r.push_back(P->tgsw_params->tlwe_params->N); r.push_back(P->tgsw_params->tlwe_params->k);
    r.push_back(P->tgsw_params->l); r.push_back(P->tgsw_params->Bgbit); r.push_back(P->ks_t); r.push_back(P->ks_basebit);
    for (int i = 0; i < n; i++) r.push_back(cur.sk->lwe_key->key[i]);
}
// keyimage spec -> for every i < n: max |bk[i] - (bkFFT[i] converted back)| over all coefficients (n values)
static void op_keyimage(const V &a, V &r) {
    need_keys(a);
    const TFheGateBootstrappingParameterSet *P = cur.params; const int n = P->in_out_params->n;
    const TGswParams *gp = P->tgsw_params; const TLweParams *tp = gp->tlwe_params;
    const LweBootstrappingKey *bk = cur.sk->cloud.bk; const LweBootstrappingKeyFFT *bf = cur.sk->cloud.bkFFT;
    TGswSample *g2 = new_TGswSample(gp);
    for (int i = 0; i < n; i++) {
        tGswFromFFTConvert(g2, &bf->bkFFT[i], gp);
        ll worst = 0;
        for (int q = 0; q < (tp->k + 1) * gp->l; q++) for (int u = 0; u <= tp->k; u++) for (int j = 0; j < tp->N; j++) {
            ll d = (ll) (int32_t) ((uint32_t) g2->all_sample[q].a[u].coefsT[j] - (uint32_t) bk->bk[i].all_sample[q].a[u].coefsT[j]);
            if (d < 0) d = -d; if (d > worst) worst = d;
        }
        r.push_back(worst);
    }
    delete_TGswSample(g2);
}
// brpair spec bara(n) v(N) -> ring key (k*N), then the phase polynomial of blindRotate(trivial accumulator with body v) for the
// coefficient-domain and for the FFT-domain variant (N values each)
static void op_brpair(const V &a, V &r) {
    need_keys(a);
    const TFheGateBootstrappingParameterSet *P = cur.params; const int n = P->in_out_params->n;
    const TGswParams *gp = P->tgsw_params; const TLweParams *tp = gp->tlwe_params; const int N = tp->N, k = tp->k;
    const ll *v = a.data() + SPECN;
    std::vector<int32_t> bara(n); for (int i = 0; i < n; i++) bara[i] = (int32_t) v[i];
    const TLweKey *tk = &cur.sk->tgsw_key->tlwe_key;
    for (int u = 0; u < k; u++) for (int j = 0; j < N; j++) r.push_back(tk->key[u].coefs[j]);
    TorusPolynomial *ph = new_TorusPolynomial(N);
    for (int var = 0; var < 2; var++) {
        TLweSample *acc = new_TLweSample(tp);
        for (int u = 0; u <= k; u++) for (int j = 0; j < N; j++) acc->a[u].coefsT[j] = (u == k) ? (int32_t) v[n + j] : 0;
        acc->current_variance = 0;
        if (var == 0) tfhe_blindRotate(acc, cur.sk->cloud.bk->bk, bara.data(), n, gp);
        else tfhe_blindRotate_FFT(acc, cur.sk->cloud.bkFFT->bkFFT, bara.data(), n, gp);
        tLwePhase(ph, acc, tk);
        for (int j = 0; j < N; j++) r.push_back(ph->coefsT[j]);
        delete_TLweSample(acc);
    }
    delete_TorusPolynomial(ph);
}
// fullcase spec mu mask a(n) b -> phases of the selected variants (1 woKS_FFT, 2 woKS, 4 FFT+KS, 8 coefficient+KS)
static void op_fullcase(const V &a, V &r) {
    need_keys(a);
    const TFheGateBootstrappingParameterSet *P = cur.params; const int n = P->in_out_params->n;
    const ll *v = a.data() + SPECN; int32_t mu = (int32_t) v[0]; int mask = v[1];
    LweSample *x = new_LweSample(P->in_out_params); for (int i = 0; i < n; i++) x->a[i] = (int32_t) v[2 + i]; x->b = (int32_t) v[2 + n];
    std::vector<int32_t> snap(x->a, x->a + n);
    LweSample *u = new_LweSample(&P->tgsw_params->tlwe_params->extracted_lweparams), *res = new_LweSample(P->in_out_params);
    const LweBootstrappingKey *bk = cur.sk->cloud.bk; const LweBootstrappingKeyFFT *bf = cur.sk->cloud.bkFFT;
    if (mask & 1) { tfhe_bootstrap_woKS_FFT(u, bf, mu, x); r.push_back(lwePhase(u, cur.xkey)); }
    if (mask & 2) { tfhe_bootstrap_woKS(u, bk, mu, x); r.push_back(lwePhase(u, cur.xkey)); }
    if (mask & 4) { tfhe_bootstrap_FFT(res, bf, mu, x); r.push_back(lwePhase(res, cur.sk->lwe_key)); }
    if (mask & 8) { tfhe_bootstrap(res, bk, mu, x); r.push_back(lwePhase(res, cur.sk->lwe_key)); }
    if (mask & 16) {   // a stand-alone FFT key: its source LweBootstrappingKey is re-keyed with other secrets and deleted before use
        LweBootstrappingKey *bk2 = new_LweBootstrappingKey(P->ks_t, P->ks_basebit, P->in_out_params, P->tgsw_params);
        tfhe_createLweBootstrappingKey(bk2, cur.sk->lwe_key, cur.sk->tgsw_key);
        LweBootstrappingKeyFFT *bf2 = new_LweBootstrappingKeyFFT(bk2);
        { LweKey *ok = new_LweKey(P->in_out_params); TGswKey *og = new_TGswKey(P->tgsw_params); lweKeyGen(ok); tGswKeyGen(og);
          tfhe_createLweBootstrappingKey(bk2, ok, og); delete_TGswKey(og); delete_LweKey(ok); }
        delete_LweBootstrappingKey(bk2);
        { std::vector<char *> junk; for (int q = 0; q < 64; q++) { char *m = (char *) malloc(1 << (6 + q % 12)); memset(m, 0x5A, 1 << (6 + q % 12)); junk.push_back(m); } for (char *m : junk) free(m); }
        tfhe_bootstrap_woKS_FFT(u, bf2, mu, x); r.push_back(lwePhase(u, cur.xkey));
        tfhe_bootstrap_FFT(res, bf2, mu, x); r.push_back(lwePhase(res, cur.sk->lwe_key));
        delete_LweBootstrappingKeyFFT(bf2);
    }
    bool same = x->b == (int32_t) v[2 + n]; for (int i = 0; i < n; i++) if (x->a[i] != snap[i]) same = false;
    r.push_back(same ? 1 : 0);
    delete_LweSample(res); delete_LweSample(u); delete_LweSample(x);
}

// ksbias lambda seed count : 'count' key-switching keys generated by lweCreateKeySwitchKey for the default set 'lambda' (random binary keys); for each the
//   constant every key switch under it adds to the phase on average:  -(1/base) * sum over rows (i,j,h>=1) of the row error (units of 2^-32).
//   prints max |bias|, then the biases
static void op_ksbias(const V &a, V &r) {
    TFheGateBootstrappingParameterSet *P = new_default_gate_bootstrapping_parameters((int) a[0]);
    uint32_t seed = (uint32_t) a[1]; tfhe_random_generator_setSeed(&seed, 1);
    const LweParams *lp = P->in_out_params; const LweParams *xp = &P->tgsw_params->tlwe_params->extracted_lweparams;
    const int n = lp->n, Nx = xp->n, t = P->ks_t, bb = P->ks_basebit, base = 1 << bb; ll mx = 0; V bs;
    for (int q = 0; q < (int) a[2]; q++) {
        LweKey *kin = new_LweKey(xp), *kout = new_LweKey(lp); lweKeyGen(kin); lweKeyGen(kout);
        LweKeySwitchKey *ks = new_LweKeySwitchKey(Nx, t, bb, lp); lweCreateKeySwitchKey(ks, kin, kout);
        long double sum = 0;
        for (int i = 0; i < Nx; i++) for (int j = 0; j < t; j++) for (int h = 1; h < base; h++)
            sum += (long double) (int32_t) (lwePhase(&ks->ks[i][j][h], kout) - (int32_t) ((uint32_t) (kin->key[i] * h) << (32 - (j + 1) * bb)));
        ll bias = (ll) (-sum / base); bs.push_back(bias); if (llabs(bias) > mx) mx = llabs(bias);
        delete_LweKeySwitchKey(ks); delete_LweKey(kout); delete_LweKey(kin);
    }
    r.push_back(mx); for (ll b : bs) r.push_back(b);
}
// gatecase spec g a1(n) b1 a2(n) b2 a3(n) b3 -> phase(result) decrypted-bit result(a.., b)
static void op_gatecase(const V &a, V &r) {
    need_keys(a);
    const TFheGateBootstrappingParameterSet *P = cur.params; const int n = P->in_out_params->n;
    const ll *v = a.data() + SPECN; int g = v[0] % 100, alias = v[0] / 100; v++;      // alias 1..3: the result object IS input a / b / c; 4..6: two operands are one object
    vguard::Scope gs(g_guard);
    LweSample *in = new_gate_bootstrapping_ciphertext_array(4, P);
    for (int q = 0; q < 3; q++) { for (int i = 0; i < n; i++) in[q].a[i] = (int32_t) v[(size_t) q * (n + 1) + i]; in[q].b = (int32_t) v[(size_t) q * (n + 1) + n]; }
    // variance annotations are bookkeeping: zero (as the constructor leaves them) or not, by the parity of the body - the ciphertext computed must not depend on them
    for (int q = 0; q < 3; q++) if (in[q].b & 1) in[q].current_variance = ldexp(1., -20 - q);
    // alias 7: the gate runs under an FFT-only cloud key (bk = NULL) derived through the lower-level API; the LweBootstrappingKey it was
    // converted from has been refilled for other secrets and deleted
    static std::string fo_spec; static TFheGateBootstrappingCloudKeySet *fo_ck = 0; static LweBootstrappingKeyFFT *fo_bf = 0;
    if (alias == 7 && (!fo_ck || fo_spec != cur.spec)) {
        vguard::Scope off(0);
        if (fo_ck) { delete fo_ck; delete_LweBootstrappingKeyFFT(fo_bf); }
        LweBootstrappingKey *bk2 = new_LweBootstrappingKey(P->ks_t, P->ks_basebit, P->in_out_params, P->tgsw_params);
        tfhe_createLweBootstrappingKey(bk2, cur.sk->lwe_key, cur.sk->tgsw_key);
        fo_bf = new_LweBootstrappingKeyFFT(bk2);
        { LweKey *ok = new_LweKey(P->in_out_params); TGswKey *og = new_TGswKey(P->tgsw_params); lweKeyGen(ok); tGswKeyGen(og);
          tfhe_createLweBootstrappingKey(bk2, ok, og); delete_TGswKey(og); delete_LweKey(ok); }
        delete_LweBootstrappingKey(bk2);
        fo_ck = new TFheGateBootstrappingCloudKeySet(P, NULL, fo_bf); fo_spec = cur.spec;
    }
    const TFheGateBootstrappingCloudKeySet *ck = (alias == 7) ? fo_ck : &cur.sk->cloud;
    LweSample *res = (alias >= 1 && alias <= 3) ? &in[alias - 1] : &in[3];
    const LweSample *pa = &in[0], *pb = &in[1], *pc = &in[2];          // alias 4: b is the same object as a   5: c is a   6: c is b
    if (alias == 4) pb = pa; if (alias == 5) pc = pa; if (alias == 6) pc = pb;
    apply_gate(g, res, pa, pb, pc, (int) v[n], ck);
    r.push_back(lwePhase(res, cur.sk->lwe_key)); r.push_back(bootsSymDecrypt(res, cur.sk));
    dump_lwe(res, n, r);
    delete_gate_bootstrapping_ciphertext_array(4, in);
}
// encdec spec nbits bits... -> for each: phase of the fresh encryption, decrypted bit
static void op_encdec(const V &a, V &r) {
    need_keys(a);
    const TFheGateBootstrappingParameterSet *P = cur.params;
    const ll *v = a.data() + SPECN; int nb = v[0];
    LweSample *c = new_gate_bootstrapping_ciphertext(P);
    for (int i = 0; i < nb; i++) { bootsSymEncrypt(c, (int) v[1 + i], cur.sk); r.push_back(lwePhase(c, cur.sk->lwe_key)); r.push_back(bootsSymDecrypt(c, cur.sk)); }
    delete_gate_bootstrapping_ciphertext(c);
}
// decbit spec a(n) b -> bootsSymDecrypt of the given sample under the key set of the spec
static void op_decbit(const V &a, V &r) {
    need_keys(a);
    const TFheGateBootstrappingParameterSet *P = cur.params; const int n = P->in_out_params->n;
    const ll *v = a.data() + SPECN;
    LweSample *c = new_gate_bootstrapping_ciphertext(P);
    for (int i = 0; i < n; i++) c->a[i] = (int32_t) v[i]; c->b = (int32_t) v[n];
    r.push_back(bootsSymDecrypt(c, cur.sk)); r.push_back(lwePhase(c, cur.sk->lwe_key));
    delete_gate_bootstrapping_ciphertext(c);
}
// netlist spec mode nwires ninstr (kind dst a b c)* inputs(nwires)
//   mode 0: inputs are fresh encryptions; mode 1: inputs carry an injected phase error of +-(1/32 - 2^-20) (alternating sign)
//   -> per instruction: phase of the destination wire after it; then the decrypted bit of every wire
static void op_netlist(const V &a, V &r) {
    need_keys(a);
    const TFheGateBootstrappingParameterSet *P = cur.params; const int n = P->in_out_params->n;
    const ll *v = a.data() + SPECN; int mode = v[0], nw = v[1], ni = v[2]; v += 3;
    vguard::Scope gs(g_guard);
    LweSample *w = new_gate_bootstrapping_ciphertext_array(nw, P);
    const ll *ins = v + (size_t) 5 * ni;
    for (int i = 0; i < nw; i++) {
        if (mode == 2) { bootsCONSTANT(&w[i], (int) ins[i], &cur.sk->cloud); continue; }      // mode 2: the inputs are constants (noiseless trivial samples)
        bootsSymEncrypt(&w[i], (int) ins[i], cur.sk);
        if (mode == 1) {
            int32_t ph = lwePhase(&w[i], cur.sk->lwe_key); int32_t want = (ins[i] ? 1 : -1) * (1 << 29) + ((i & 1) ? 1 : -1) * ((1 << 27) - 4096);
            w[i].b += want - ph;
        }
    }
    for (int q = 0; q < ni; q++) {
        int kd = v[5 * q], d = v[5 * q + 1], x = v[5 * q + 2], y = v[5 * q + 3], z = v[5 * q + 4];
        apply_gate(kd, &w[d], &w[kd == 12 ? 0 : x], &w[y], &w[z], (int) v[5 * q + 2], &cur.sk->cloud);
        r.push_back(lwePhase(&w[d], cur.sk->lwe_key));
    }
    for (int i = 0; i < nw; i++) r.push_back(bootsSymDecrypt(&w[i], cur.sk));
    (void) n;
    delete_gate_bootstrapping_ciphertext_array(nw, w);
}

// ---- exact references, independent of the library: uint32 wrap-around schoolbook in Z_{2^32}[X]/(X^N+1) ----
static void xmul_acc(int N, const ll *a, const ll *b, std::vector<uint32_t> &r, bool sub) {
    for (int i = 0; i < N; i++) { uint32_t ai = (uint32_t) a[i]; if (!ai) continue;
        for (int j = 0; j < N; j++) { uint32_t t = ai * (uint32_t) b[j]; int c = i + j; if (c >= N) { c -= N; t = 0u - t; } if (sub) r[c] -= t; else r[c] += t; } }
}
static void op_xmul(const V &a, V &r) {  // N a(N) b(N)
    int N = a[0]; std::vector<uint32_t> acc(N, 0); xmul_acc(N, a.data() + 1, a.data() + 1 + N, acc, false);
    for (int i = 0; i < N; i++) r.push_back((int32_t) acc[i]);
}
static void op_xtphase(const V &a, V &r) {  // k N key(k*N) c((k+1)*N)
    int k = a[0], N = a[1]; const ll *key = a.data() + 2, *c = key + (size_t) k * N;
    std::vector<uint32_t> acc(N);
    for (int j = 0; j < N; j++) acc[j] = (uint32_t) c[(size_t) k * N + j];
    for (int i = 0; i < k; i++) xmul_acc(N, key + (size_t) i * N, c + (size_t) i * N, acc, true);
    for (int j = 0; j < N; j++) r.push_back((int32_t) acc[j]);
}

int main() {
    std::string line;
    while (std::getline(std::cin, line)) {
        // fast tokeniser: lines can carry several hundred thousand integers
        const char *s = line.c_str(); while (*s == ' ') s++;
        const char *e = s; while (*e && *e != ' ') e++;
        std::string op(s, e - s);
        if (op.empty()) { putchar('\n'); fflush(stdout); continue; }
        V a; char *q = (char *) e;
        for (;;) { while (*q == ' ') q++; if (!*q) break; char *nx; ll x = strtoll(q, &nx, 10); if (nx == q) break; a.push_back(x); q = nx; }
        V r;
        if (op == "tgsw") op_tgsw(a, r);
        else if (op == "boot") op_boot(a, r);
        else if (op == "bkgen") op_bkgen(a, r);
        else if (op == "keyimage") op_keyimage(a, r);
        else if (op == "decbit") op_decbit(a, r);
        else if (op == "brpair") op_brpair(a, r);
        else if (op == "fullkey") op_fullkey(a, r);
        else if (op == "ksbias") op_ksbias(a, r);
        else if (op == "guard") { g_guard = a.empty() ? 0 : (int) a[0]; r.push_back(1); r.push_back(vguard::served); }
        else if (op == "fullcase") op_fullcase(a, r);
        else if (op == "stack") { g_stack_kib = a.empty() ? 0 : (int) a[0]; r.push_back(1); }
        else if (op == "gatecase") {
            if (!g_stack_kib) op_gatecase(a, r);
            else {   // the gate evaluated on a thread with a small stack (worker threads of pools, fibres); keys are made here first, on the main thread
                need_keys(a);
                struct J { const V *a; V *r; } j = { &a, &r };
                pthread_attr_t at; pthread_attr_init(&at); pthread_attr_setstacksize(&at, (size_t) g_stack_kib * 1024); pthread_attr_setguardsize(&at, 65536);
                pthread_t th; if (pthread_create(&th, &at, [](void *p) -> void * { J *q = (J *) p; op_gatecase(*q->a, *q->r); return 0; }, &j)) abort();
                pthread_join(th, 0); pthread_attr_destroy(&at);
            }
        }
        else if (op == "encdec") op_encdec(a, r);
        else if (op == "netlist") op_netlist(a, r);
        else if (op == "xmul") op_xmul(a, r);
        else if (op == "xtphase") op_xtphase(a, r);
        else { puts("NOOP"); fflush(stdout); continue; }
        out(r);
    }
    return 0;
}
