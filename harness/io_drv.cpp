// harness/io_drv.cpp — implementation side of the codec correspondence (C05, C17, C18).
//   cexp code transport fields...               -> exported bytes
//   cimp code transport ctx... nbytes bytes...  -> class eof fail remaining fields...   (import runs in a forked child)
// class: 0 returned, 1 SIGABRT, 2 SIGSEGV, 9 other signal.  Field order mirrors coq/Codec/Flat.v.
#include <cstdio>
#include <cstdlib>
#include <cstring>
#include <string>
#include <vector>
#include <sstream>
#include <locale>
#include <iostream>
#include <unistd.h>
#include <sys/wait.h>
#include "tfhe.h"
#include "tfhe_io.h"
typedef long long ll;
typedef std::vector<ll> V;
static double bits2d(ll b) { double d; unsigned long long u = (unsigned long long) b; memcpy(&d, &u, 8); return d; }
static ll d2bits(double d) { unsigned long long u; memcpy(&u, &d, 8); return (ll) u; }
struct Cur { const V &v; size_t p; Cur(const V &v, size_t p) : v(v), p(p) {} ll next() { return p < v.size() ? v[p++] : 0; } };
static void pr(std::string &o, ll x) { char b[32]; snprintf(b, sizeof b, "%llu ", (unsigned long long) x); if (x < 0) snprintf(b, sizeof b, "%lld ", x); o += b; }

// ---- building objects from flattened fields ----
static LweParams *mk_lp(Cur &c) { ll n = c.next(); double a = bits2d(c.next()), b = bits2d(c.next()); return new_LweParams((int) n, a, b); }
static TLweParams *mk_tp(Cur &c) { ll N = c.next(), k = c.next(); double a = bits2d(c.next()), b = bits2d(c.next()); return new_TLweParams((int) N, (int) k, a, b); }
static TGswParams *mk_gp(Cur &c) { TLweParams *tp = mk_tp(c); ll l = c.next(), B = c.next(); return new_TGswParams((int) l, (int) B, tp); }
static void fill_lwesample(Cur &c, LweSample *s, int n) { for (int i = 0; i < n; i++) s->a[i] = (int32_t) c.next(); s->b = (int32_t) c.next(); s->current_variance = bits2d(c.next()); }
static void fill_tlwesample(Cur &c, TLweSample *s, int N, int k) { for (int i = 0; i <= k; i++) for (int j = 0; j < N; j++) s->a[i].coefsT[j] = (int32_t) c.next(); s->current_variance = bits2d(c.next()); }
static LweKeySwitchKey *mk_ks(Cur &c, const LweParams *out) {
    int n = c.next(), t = c.next(), b = c.next();
    LweKeySwitchKey *ks = new_LweKeySwitchKey(n, t, b, out);
    for (int q = 0; q < n * t * (1 << b); q++) fill_lwesample(c, &ks->ks0_raw[q], out->n);
    return ks;
}
static LweBootstrappingKey *mk_bk(Cur &c, const LweParams *lp, const TGswParams *gp) {
    int n = c.next(), t = c.next(), b = c.next(); (void) n;
    LweBootstrappingKey *bk = new_LweBootstrappingKey(t, b, lp, gp);
    LweKeySwitchKey *ks = bk->ks;
    for (int q = 0; q < ks->n * t * (1 << b); q++) fill_lwesample(c, &ks->ks0_raw[q], lp->n);
    const int N = gp->tlwe_params->N, k = gp->tlwe_params->k;
    for (int i = 0; i < lp->n; i++) for (int j = 0; j < gp->kpl; j++) fill_tlwesample(c, &bk->bk[i].all_sample[j], N, k);
    return bk;
}
static TFheGateBootstrappingParameterSet *mk_ps(Cur &c) {
    int kt = c.next(), kb = c.next(); LweParams *lp = mk_lp(c); TGswParams *gp = mk_gp(c);
    return new TFheGateBootstrappingParameterSet(kt, kb, lp, gp);
}

// ---- printing objects (same order as Flat.v) ----
static void pr_lp(std::string &o, const LweParams *p) { pr(o, p->n); pr(o, d2bits(p->alpha_min)); pr(o, d2bits(p->alpha_max)); }
static void pr_tp(std::string &o, const TLweParams *p) { pr(o, p->N); pr(o, p->k); pr(o, d2bits(p->alpha_min)); pr(o, d2bits(p->alpha_max)); }
static void pr_gp(std::string &o, const TGswParams *p) { pr_tp(o, p->tlwe_params); pr(o, p->l); pr(o, p->Bgbit); }
static void pr_lwesample(std::string &o, const LweSample *s, int n) { for (int i = 0; i < n; i++) pr(o, s->a[i]); pr(o, s->b); pr(o, d2bits(s->current_variance)); }
static void pr_tlwesample(std::string &o, const TLweSample *s, int N, int k) { for (int i = 0; i <= k; i++) for (int j = 0; j < N; j++) pr(o, s->a[i].coefsT[j]); pr(o, d2bits(s->current_variance)); }
static void pr_ks(std::string &o, const LweKeySwitchKey *ks) { pr(o, ks->n); pr(o, ks->t); pr(o, ks->basebit); for (int q = 0; q < ks->n * ks->t * ks->base; q++) pr_lwesample(o, &ks->ks0_raw[q], ks->out_params->n); }
static void pr_bk(std::string &o, const LweBootstrappingKey *bk) {
    pr_ks(o, bk->ks); const int N = bk->bk_params->tlwe_params->N, k = bk->bk_params->tlwe_params->k;
    for (int i = 0; i < bk->in_out_params->n; i++) for (int j = 0; j < bk->bk_params->kpl; j++) pr_tlwesample(o, &bk->bk[i].all_sample[j], N, k);
}
static void pr_ps(std::string &o, const TFheGateBootstrappingParameterSet *p) { pr(o, p->ks_t); pr(o, p->ks_basebit); pr_lp(o, p->in_out_params); pr_gp(o, p->tgsw_params); }

struct Sink {   // an output transport
    int tr; FILE *F; std::ostringstream os;
    Sink(int tr) : tr(tr), F(tr == 0 ? tmpfile() : NULL) {}
    std::string bytes() { if (tr == 1) return os.str(); fflush(F); long n = ftell(F); rewind(F); std::string s(n, 0); if (n && fread(&s[0], 1, n, F) != (size_t) n) abort(); fclose(F); return s; }
};
#define EXPORT2(fn, ...) do { if (S.tr == 0) fn##_toFile(S.F, __VA_ARGS__); else fn##_toStream(S.os, __VA_ARGS__); } while (0)

static std::string do_export(int code, int tr, Cur c) {
    Sink S(tr);
    if (code == 1) { LweParams *p = mk_lp(c); EXPORT2(export_lweParams, p); }
    else if (code == 2) { int n = c.next(); LweParams *p = new_LweParams(n, 0., 1.); LweSample *s = new_LweSample(p); fill_lwesample(c, s, n); EXPORT2(export_lweSample, s, p); }
    else if (code == 3) { LweParams *p = mk_lp(c); LweKey *k = new_LweKey(p); for (int i = 0; i < p->n; i++) k->key[i] = (int32_t) c.next(); EXPORT2(export_lweKey, k); }
    else if (code == 4) { TLweParams *p = mk_tp(c); EXPORT2(export_tLweParams, p); }
    else if (code == 5) { int N = c.next(), k = c.next(); TLweParams *p = new_TLweParams(N, k, 0., 1.); TLweSample *s = new_TLweSample(p); fill_tlwesample(c, s, N, k); EXPORT2(export_tlweSample, s, p); }
    else if (code == 6) { TLweParams *p = mk_tp(c); TLweKey *k = new_TLweKey(p); for (int i = 0; i < p->k; i++) for (int j = 0; j < p->N; j++) k->key[i].coefs[j] = (int32_t) c.next(); EXPORT2(export_tlweKey, k); }
    else if (code == 7) { TGswParams *p = mk_gp(c); EXPORT2(export_tGswParams, p); }
    else if (code == 8) { int N = c.next(), k = c.next(), l = c.next(); TLweParams *tp = new_TLweParams(N, k, 0., 1.); TGswParams *gp = new_TGswParams(l, 1, tp);
        TGswSample *s = new_TGswSample(gp); for (int q = 0; q < gp->kpl; q++) fill_tlwesample(c, &s->all_sample[q], N, k); EXPORT2(export_tgswSample, s, gp); }
    else if (code == 9) { TGswParams *p = mk_gp(c); TGswKey *k = new_TGswKey(p); for (int i = 0; i < p->tlwe_params->k; i++) for (int j = 0; j < p->tlwe_params->N; j++) k->key[i].coefs[j] = (int32_t) c.next(); EXPORT2(export_tgswKey, k); }
    else if (code == 10) { LweParams *p = mk_lp(c); LweKeySwitchKey *ks = mk_ks(c, p); EXPORT2(export_lweKeySwitchKey, ks); }
    else if (code == 11) { LweParams *lp = mk_lp(c); TGswParams *gp = mk_gp(c); LweBootstrappingKey *bk = mk_bk(c, lp, gp); EXPORT2(export_lweBootstrappingKey, bk); }
    else if (code == 12) { TFheGateBootstrappingParameterSet *p = mk_ps(c); EXPORT2(export_tfheGateBootstrappingParameterSet, p); }
    else if (code == 13) { TFheGateBootstrappingParameterSet *p = mk_ps(c); LweBootstrappingKey *bk = mk_bk(c, p->in_out_params, p->tgsw_params);
        TFheGateBootstrappingCloudKeySet *ck = new TFheGateBootstrappingCloudKeySet(p, bk, NULL); EXPORT2(export_tfheGateBootstrappingCloudKeySet, ck); }
    else if (code == 14) { TFheGateBootstrappingParameterSet *p = mk_ps(c); LweBootstrappingKey *bk = mk_bk(c, p->in_out_params, p->tgsw_params);
        LweKey *lk = new_LweKey(p->in_out_params); for (int i = 0; i < p->in_out_params->n; i++) lk->key[i] = (int32_t) c.next();
        TGswKey *gk = new_TGswKey(p->tgsw_params); const TLweParams *tp = p->tgsw_params->tlwe_params;
        for (int i = 0; i < tp->k; i++) for (int j = 0; j < tp->N; j++) gk->key[i].coefs[j] = (int32_t) c.next();
        TFheGateBootstrappingSecretKeySet *sk = new TFheGateBootstrappingSecretKeySet(p, bk, NULL, lk, gk); EXPORT2(export_tfheGateBootstrappingSecretKeySet, sk); }
    return S.bytes();   // objects are leaked on purpose: one-shot driver commands
}

// transport 2: the C++-stream API over a stream buffer that delivers its data piecewise (97 bytes per refill), as a file, pipe
// or socket buffer does; the import must behave exactly as over a string stream
struct ChunkBuf : std::streambuf {
    std::string data; size_t pos; char buf[97];
    ChunkBuf(const std::string &d) : data(d), pos(0) { setg(buf, buf, buf); }
    int_type underflow() override {
        if (gptr() < egptr()) return traits_type::to_int_type(*gptr());
        if (pos >= data.size()) return traits_type::eof();
        size_t n = std::min(sizeof buf, data.size() - pos); memcpy(buf, data.data() + pos, n); pos += n; setg(buf, buf, buf + n);
        return traits_type::to_int_type(*gptr());
    }
    size_t left() const { return (data.size() - pos) + (size_t) (egptr() - gptr()); }
};

// one import from the given transport; appends the flattened fields
static void import_one(int code, int tr, FILE *F, std::istream &is, const V &ctx, std::string &f) {
#define IMPORT_NEW(fn) (tr == 0 ? fn##_fromFile(F) : fn##_fromStream(is))
#define IMPORT_INTO(fn, ...) do { if (tr == 0) fn##_fromFile(F, __VA_ARGS__); else fn##_fromStream(is, __VA_ARGS__); } while (0)
    if (code == 1) { LweParams *p = IMPORT_NEW(new_lweParams); pr_lp(f, p); }
    else if (code == 2) { int n = ctx[0]; LweParams *p = new_LweParams(n, 0., 1.); LweSample *s = new_LweSample(p); for (int i = 0; i < n; i++) s->a[i] = 0; s->b = 0; s->current_variance = 0; IMPORT_INTO(import_lweSample, s, p); pr_lwesample(f, s, n); }
    else if (code == 3) { LweKey *k = IMPORT_NEW(new_lweKey); pr_lp(f, k->params); for (int i = 0; i < k->params->n; i++) pr(f, k->key[i]); }
    else if (code == 4) { TLweParams *p = IMPORT_NEW(new_tLweParams); pr_tp(f, p); }
    else if (code == 5) { int N = ctx[0], k = ctx[1]; TLweParams *p = new_TLweParams(N, k, 0., 1.); TLweSample *s = new_TLweSample(p); IMPORT_INTO(import_tlweSample, s, p); pr_tlwesample(f, s, N, k); }
    else if (code == 6) { TLweKey *k = IMPORT_NEW(new_tlweKey); pr_tp(f, k->params); for (int i = 0; i < k->params->k; i++) for (int j = 0; j < k->params->N; j++) pr(f, k->key[i].coefs[j]); }
    else if (code == 7) { TGswParams *p = IMPORT_NEW(new_tGswParams); pr_gp(f, p); }
    else if (code == 8) { int N = ctx[0], k = ctx[1], l = ctx[2]; TLweParams *tp = new_TLweParams(N, k, 0., 1.); TGswParams *gp = new_TGswParams(l, 1, tp); TGswSample *s = new_TGswSample(gp);
        IMPORT_INTO(import_tgswSample, s, gp); for (int q = 0; q < gp->kpl; q++) pr_tlwesample(f, &s->all_sample[q], N, k); }
    else if (code == 9) { TGswKey *k = IMPORT_NEW(new_tgswKey); pr_gp(f, k->params); for (int i = 0; i < k->params->tlwe_params->k; i++) for (int j = 0; j < k->params->tlwe_params->N; j++) pr(f, k->key[i].coefs[j]); }
    else if (code == 10) { LweKeySwitchKey *ks = IMPORT_NEW(new_lweKeySwitchKey); pr_lp(f, ks->out_params); pr_ks(f, ks); }
    else if (code == 11) { LweBootstrappingKey *bk = IMPORT_NEW(new_lweBootstrappingKey); pr_lp(f, bk->in_out_params); pr_gp(f, bk->bk_params); pr_bk(f, bk); }
    else if (code == 12) { TFheGateBootstrappingParameterSet *p = IMPORT_NEW(new_tfheGateBootstrappingParameterSet); pr_ps(f, p); }
    else if (code == 13) { TFheGateBootstrappingCloudKeySet *ck = IMPORT_NEW(new_tfheGateBootstrappingCloudKeySet); pr_ps(f, ck->params); pr_bk(f, ck->bk); }
    else if (code == 14) { TFheGateBootstrappingSecretKeySet *sk = IMPORT_NEW(new_tfheGateBootstrappingSecretKeySet); pr_ps(f, sk->params); pr_bk(f, sk->cloud.bk);
        for (int i = 0; i < sk->params->in_out_params->n; i++) pr(f, sk->lwe_key->key[i]);
        const TLweParams *tp = sk->params->tgsw_params->tlwe_params; for (int i = 0; i < tp->k; i++) for (int j = 0; j < tp->N; j++) pr(f, sk->tgsw_key->key[i].coefs[j]); }
}
// runs inside the forked child: import(s), then print "0 eof fail remaining fields"
// codes: the importers to run one after the other on the same stream (ctx only for a single sample importer)
static void child_import(std::vector<int> codes, int tr, Cur c, int outfd) {
    V ctx; int code = codes[0]; int nctx = codes.size() > 1 ? 0 : code == 2 ? 1 : code == 5 ? 2 : code == 8 ? 3 : 0;
    for (int i = 0; i < nctx; i++) ctx.push_back(c.next());
    ll nb = c.next(); std::string bytes((size_t) nb, 0); for (ll i = 0; i < nb; i++) bytes[i] = (char) c.next();
    FILE *F = NULL; std::istringstream iss(bytes); ChunkBuf cb(bytes); std::istream ics(&cb); std::istream &is = (tr == 2) ? ics : (std::istream &) iss;
    if (tr == 0) { F = tmpfile(); if (nb) fwrite(bytes.data(), 1, nb, F); rewind(F); }
    if (!freopen("/dev/null", "w", stderr)) {}
    std::string o, f;
    for (size_t q = 0; q < codes.size(); q++) { if (q) f += "| "; import_one(codes[q], tr, F, is, ctx, f); }
    ll eofb, failb, remaining;
    if (tr == 0) { eofb = feof(F) ? 1 : 0; failb = ferror(F) ? 1 : 0; long pos = ftell(F); remaining = nb - pos; }
    else if (tr == 2) { eofb = is.eof(); failb = is.fail(); remaining = (ll) cb.left(); }
    else { eofb = is.eof(); failb = is.fail(); remaining = (ll) is.rdbuf()->in_avail(); if (remaining < 0) remaining = 0; }
    pr(o, 0); pr(o, eofb); pr(o, failb); pr(o, remaining); o += f; o += "\n";
    size_t off = 0; while (off < o.size()) { ssize_t w = write(outfd, o.data() + off, o.size() - off); if (w <= 0) break; off += w; }
    _exit(0);
}

int main() {
    std::string line;
    while (std::getline(std::cin, line)) {
        std::istringstream is(line); is.imbue(std::locale::classic()); std::string op; if (!(is >> op)) { puts(""); fflush(stdout); continue; }
        V a; ll x; while (is >> x) a.push_back(x);
        if (op == "setlocale") {   // 1: a global C++ locale with digit grouping and a decimal comma (custom facets, no system locale needed); 0: classic
            struct Punct : std::numpunct<char> { char do_decimal_point() const override { return ','; } char do_thousands_sep() const override { return '.'; } std::string do_grouping() const override { return "\3"; } };
            if (!a.empty() && a[0] == 1) std::locale::global(std::locale(std::locale::classic(), new Punct)); else std::locale::global(std::locale::classic());
            puts("ok"); fflush(stdout); continue;
        }
        if (op == "cexp") {
            std::string b = do_export((int) a[0], (int) a[1], Cur(a, 2));
            std::string o; for (unsigned char ch : b) pr(o, ch); puts(o.c_str()); fflush(stdout);
        } else if (op == "cimp" || op == "cimpseq") {
            // cimpseq transport m code1..codem nbytes bytes...
            std::vector<int> codes; int tr; size_t start;
            if (op == "cimp") { codes.push_back((int) a[0]); tr = (int) a[1]; start = 2; }
            else { tr = (int) a[0]; int m = (int) a[1]; for (int i = 0; i < m; i++) codes.push_back((int) a[2 + i]); start = 2 + m; }
            int fd[2]; if (pipe(fd)) abort();
            fflush(stdout);
            pid_t pid = fork();
            if (pid == 0) { close(fd[0]); child_import(codes, tr, Cur(a, start), fd[1]); _exit(0); }
            close(fd[1]);
            std::string got; char buf[65536]; ssize_t r; while ((r = read(fd[0], buf, sizeof buf)) > 0) got.append(buf, r);
            close(fd[0]);
            int st = 0; waitpid(pid, &st, 0);
            if (WIFSIGNALED(st)) { int sg = WTERMSIG(st); printf("%d\n", sg == SIGABRT ? 1 : sg == SIGSEGV ? 2 : 900 + sg); }
            else if (WEXITSTATUS(st) != 0) printf("%d\n", 800 + WEXITSTATUS(st));
            else fputs(got.c_str(), stdout);
            fflush(stdout);
        } else { puts("NOOP"); fflush(stdout); }
    }
    return 0;
}
