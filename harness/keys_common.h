// harness/keys_common.h — key sets cached by their spec, and the gate dispatcher (shared by boot_drv.cpp and eval_drv.cpp)
#pragma once
#include <sstream>
#include <string>
#include <vector>
#include <cmath>
#include "tfhe.h"
typedef long long ll;
typedef std::vector<ll> V;
// ---- full key sets: spec = lambda n k l B t bb abk aks seed  (lambda > 0: default set; else custom, N = 1024,
//      noise levels in units of 2^-40) ----
struct KS {
    std::string spec; TFheGateBootstrappingParameterSet *params; TFheGateBootstrappingSecretKeySet *sk; LweKey *xkey;
    KS() : params(0), sk(0), xkey(0) {}
};
static KS cur;
static const int SPECN = 10;
static void need_keys(const V &a) {
    std::ostringstream os; for (int i = 0; i < SPECN; i++) os << a[i] << ' ';
    if (cur.sk && cur.spec == os.str()) return;
    if (cur.sk) { delete_LweKey(cur.xkey); delete_gate_bootstrapping_secret_keyset(cur.sk); cur.sk = 0; }
    uint32_t seed = (uint32_t) a[9]; tfhe_random_generator_setSeed(&seed, 1);
    if (a[0] > 0) cur.params = new_default_gate_bootstrapping_parameters((int) a[0]);
    else if (a[0] == -1) {     // the in/out LWE parameters ARE the parameters of the extracted samples (one object, n = k*N): no separate LweParams
        TLweParams *tp = new_TLweParams(1024, (int) a[2], ldexp((double) a[7], -40), 0.012467);
        TGswParams *gp = new_TGswParams((int) a[3], (int) a[4], tp);
        cur.params = new TFheGateBootstrappingParameterSet((int) a[5], (int) a[6], &tp->extracted_lweparams, gp);
    } else {
        LweParams *lp = new_LweParams((int) a[1], ldexp((double) a[8], -40), 0.012467);
        TLweParams *tp = new_TLweParams(1024, (int) a[2], ldexp((double) a[7], -40), 0.012467);
        TGswParams *gp = new_TGswParams((int) a[3], (int) a[4], tp);
        cur.params = new TFheGateBootstrappingParameterSet((int) a[5], (int) a[6], lp, gp);
    }
    if (a[0] == -2) {
        // lambda = -2: as the custom sets, the key set assembled through the lower-level API with a TERNARY ring key (coefficients -1, 0, 1): blind
        // rotation, extraction and key switch are linear in the ring key, nothing in them needs it to be binary (the LWE key stays binary)
        const TFheGateBootstrappingParameterSet *P = cur.params;
        LweKey *lk = new_LweKey(P->in_out_params); lweKeyGen(lk);
        TGswKey *gk = new_TGswKey(P->tgsw_params); tGswKeyGen(gk);
        for (int i = 0; i < P->tgsw_params->tlwe_params->k; i++) for (int j = 1; j < 1024; j += 2) if (gk->tlwe_key.key[i].coefs[j]) gk->tlwe_key.key[i].coefs[j] = -1;
        LweBootstrappingKey *bk = new_LweBootstrappingKey(P->ks_t, P->ks_basebit, P->in_out_params, P->tgsw_params);
        tfhe_createLweBootstrappingKey(bk, lk, gk);
        LweBootstrappingKeyFFT *bkFFT = new_LweBootstrappingKeyFFT(bk);
        cur.sk = new TFheGateBootstrappingSecretKeySet(P, bk, bkFFT, lk, gk);
    } else
    cur.sk = new_random_gate_bootstrapping_secret_keyset(cur.params);
    cur.xkey = new_LweKey(&cur.params->tgsw_params->tlwe_params->extracted_lweparams);
    tLweExtractKey(cur.xkey, &cur.sk->tgsw_key->tlwe_key);
    cur.spec = os.str();
}
// ---- gates through the public API ----
typedef void (*G2)(LweSample *, const LweSample *, const LweSample *, const TFheGateBootstrappingCloudKeySet *);
static G2 gate2[10] = { bootsNAND, bootsOR, bootsAND, bootsXOR, bootsXNOR, bootsNOR, bootsANDNY, bootsANDYN, bootsORNY, bootsORYN };
static void apply_gate(int g, LweSample *res, const LweSample *a, const LweSample *b, const LweSample *c, int cval,
                       const TFheGateBootstrappingCloudKeySet *ck) {
    if (g < 10) gate2[g](res, a, b, ck);
    else if (g == 10) bootsNOT(res, a, ck);
    else if (g == 11) bootsCOPY(res, a, ck);
    else if (g == 12) bootsCONSTANT(res, cval, ck);
    else bootsMUX(res, a, b, c, ck);
}
